"""
Reference semantics of States Language Paths / Reference Paths (definite paths only).  No engine imports.
Grammar: $ ( .name | ['name'] | ["name"] | [n] )*      names in dot notation: [A-Za-z_][A-Za-z0-9_]*
"""
import re, copy, json

class NoMatch(Exception):
    pass
class Unplaceable(Exception):
    pass
class BadPath(Exception):
    pass

_SEG = re.compile(r"\.([A-Za-z_][A-Za-z0-9_]*)|\[(\d+)\]|\['((?:[^'\\]|\\.)*)'\]|\[\"((?:[^\"\\]|\\.)*)\"\]")

def tokens(path):
    """'$.a[0]['b c']' -> ['a', 0, 'b c'] (str = member name, int = array index)."""
    if not isinstance(path, str) or not path.startswith("$"):
        raise BadPath(path)
    pos, out = 1, []
    while pos < len(path):
        m = _SEG.match(path, pos)
        if not m:
            raise BadPath(path)
        if m.group(1) is not None:
            out.append(m.group(1))
        elif m.group(2) is not None:
            out.append(int(m.group(2)))
        else:
            s = m.group(3) if m.group(3) is not None else m.group(4)
            out.append(re.sub(r"\\(.)", r"\1", s))
        pos = m.end()
    return out

def get_tokens(doc, toks):
    cur = doc
    for t in toks:
        if isinstance(t, int):
            if not isinstance(cur, list) or t >= len(cur):
                raise NoMatch()
            cur = cur[t]
        else:
            if not isinstance(cur, dict) or t not in cur:
                raise NoMatch()
            cur = cur[t]
    return cur

def get(doc, path):
    """InputPath / OutputPath / Variable semantics: None -> {}, '$' -> doc, definite path -> value or NoMatch."""
    if path is None:
        return {}
    return get_tokens(doc, tokens(path))

def apply_path(doc, context, path):
    if path is None:
        return {}
    if path.startswith("$$"):
        return get_tokens(context, tokens(path[1:]))
    return get_tokens(doc, tokens(path))

def put_tokens(doc, toks, value):
    """Persistent (copying) placement; never aliases `value` with `doc`."""
    value = copy.deepcopy(value)
    if not toks:
        return value
    def rec(cur, i):
        t = toks[i]
        last = i == len(toks) - 1
        if isinstance(t, int):
            if not isinstance(cur, list) or t >= len(cur):
                raise Unplaceable("index %d" % t)
            new = list(cur)
            new[t] = value if last else rec(cur[t], i + 1)
            return new
        if not isinstance(cur, dict):
            raise Unplaceable("member %r of a non-object" % t)
        new = dict(cur)
        if last:
            new[t] = value
        else:
            new[t] = rec(cur[t] if t in cur else {}, i + 1)
        return new
    return rec(copy.deepcopy(doc), 0)

def put(doc, path, value):
    """ResultPath semantics: None -> doc (result discarded), '$' -> value, reference path -> doc with value placed."""
    if doc is None:
        doc = {}
    if path is None:
        return copy.deepcopy(doc)
    if path.startswith("$$"):
        raise Unplaceable("ResultPath must not address the context")
    return put_tokens(doc, tokens(path), value)
