"""
Reference semantics of Payload Templates and Intrinsic Functions (States Language appendix B / AWS intrinsic
function documentation).  Real tokenizer + recursive-descent parser.  No engine imports.
"""
import re, json, copy, base64, hashlib, binascii
from . import jsonpath as JP

class IntrinsicFailure(Exception):
    pass
class PathFailure(Exception):
    pass
class Unspecified(Exception):
    """The definitions do not determine the result for this input; callers must not judge it."""

# ---------------------------------------------------------------------------------------------------
class Call(object):
    def __init__(self, name, args):
        self.name, self.args = name, args
class Path(object):
    def __init__(self, text):
        self.text = text
class Lit(object):
    def __init__(self, value):
        self.value = value

_NAME = re.compile(r"States\.[A-Za-z0-9]+")
_NUM = re.compile(r"-?\d+(\.\d+)?([eE][+-]?\d+)?")

def parse(text):
    """Parse 'States.X(arg, ...)' into a Call tree; raises IntrinsicFailure on malformed text."""
    pos = [0]
    n = len(text)
    def ws():
        while pos[0] < n and text[pos[0]] in " \t\n\r":
            pos[0] += 1
    def call():
        m = _NAME.match(text, pos[0])
        if not m:
            raise IntrinsicFailure("function name expected at %d" % pos[0])
        name = m.group(0)
        pos[0] = m.end()
        ws()
        if pos[0] >= n or text[pos[0]] != "(":
            raise IntrinsicFailure("'(' expected")
        pos[0] += 1
        args = []
        ws()
        if pos[0] < n and text[pos[0]] == ")":
            pos[0] += 1
            return Call(name, args)
        while True:
            ws()
            args.append(arg())
            ws()
            if pos[0] >= n:
                raise IntrinsicFailure("unterminated call")
            if text[pos[0]] == ",":
                pos[0] += 1
                continue
            if text[pos[0]] == ")":
                pos[0] += 1
                return Call(name, args)
            raise IntrinsicFailure("',' or ')' expected at %d" % pos[0])
    def arg():
        if pos[0] >= n:
            raise IntrinsicFailure("argument expected")
        c = text[pos[0]]
        if c == "'":
            pos[0] += 1
            out = []
            while True:
                if pos[0] >= n:
                    raise IntrinsicFailure("unterminated string")
                c = text[pos[0]]
                if c == "\\" and pos[0] + 1 < n:
                    # the escape is resolved by the function (Format keeps \{ \} for itself)
                    out.append(text[pos[0]:pos[0] + 2]); pos[0] += 2
                elif c == "'":
                    pos[0] += 1
                    return Lit(("str", "".join(out)))
                else:
                    out.append(c); pos[0] += 1
        if c == "$":
            start = pos[0]
            depth = 0
            while pos[0] < n:
                ch = text[pos[0]]
                if ch == "[":
                    depth += 1
                elif ch == "]":
                    depth -= 1
                elif depth == 0 and ch in ",) \t":
                    break
                pos[0] += 1
            return Path(text[start:pos[0]])
        if text.startswith("States.", pos[0]):
            return call()
        for word, val in (("null", None), ("true", True), ("false", False)):
            if text.startswith(word, pos[0]) and (pos[0] + len(word) == n or text[pos[0] + len(word)] in ",) \t"):
                pos[0] += len(word)
                return Lit(("json", val))
        m = _NUM.match(text, pos[0])
        if m and (m.end() == n or text[m.end()] in ",) \t"):
            pos[0] = m.end()
            s = m.group(0)
            return Lit(("json", int(s) if re.match(r"^-?\d+$", s) else float(s)))
        raise IntrinsicFailure("bad argument at %d" % pos[0])
    ws()
    c = call()
    ws()
    if pos[0] != n:
        raise IntrinsicFailure("trailing text")
    return c

def unescape(s):
    """Resolve \\' and \\\\ (and leave other escapes for Format)."""
    return re.sub(r"\\(['\\])", r"\1", s)

def is_int(x):
    return isinstance(x, int) and not isinstance(x, bool)

# ---------------------------------------------------------------------------------------------------
def render(v):
    if isinstance(v, str):
        return v
    if is_int(v):
        return str(v)
    raise Unspecified("rendering of %r in States.Format" % (v,))

def f_Format(args):
    if len(args) < 1:
        raise IntrinsicFailure("Format needs a template string")
    if isinstance(args[0], tuple):
        tmpl = args[0][1]
    elif isinstance(args[0], str):
        tmpl = args[0]
    else:
        raise IntrinsicFailure("Format needs a template string")
    vals = args[1:]
    out, i, k = [], 0, 0
    while i < len(tmpl):
        c = tmpl[i]
        if c == "\\" and i + 1 < len(tmpl) and tmpl[i + 1] in "{}'\\":
            out.append(tmpl[i + 1]); i += 2
        elif c == "{":
            if i + 1 < len(tmpl) and tmpl[i + 1] == "}":
                if k >= len(vals):
                    raise IntrinsicFailure("too few arguments")
                out.append(render(vals[k])); k += 1; i += 2
            else:
                raise IntrinsicFailure("only {} is a placeholder")
        elif c == "}":
            raise IntrinsicFailure("unmatched }")
        else:
            out.append(c); i += 1
    if k != len(vals):
        raise Unspecified("more arguments than placeholders")
    return "".join(out)

def need(cond, msg="bad arguments"):
    if not cond:
        raise IntrinsicFailure(msg)

def f_StringToJson(a):
    need(len(a) == 1 and isinstance(a[0], str))
    try:
        return json.loads(a[0])
    except ValueError:
        raise IntrinsicFailure("not JSON")

def f_JsonToString(a):
    need(len(a) == 1)
    return ("jsontext", a[0])

def f_Array(a):
    return list(a)

def f_ArrayPartition(a):
    need(len(a) == 2 and isinstance(a[0], list) and is_int(a[1]) and a[1] > 0)
    return [a[0][i:i + a[1]] for i in range(0, len(a[0]), a[1])]

def jeq(x, y):
    """JSON value equality (true is not 1)."""
    return json.dumps(x, sort_keys=True) == json.dumps(y, sort_keys=True) or (
        isinstance(x, (int, float)) and isinstance(y, (int, float)) and not isinstance(x, bool) and not isinstance(y, bool) and x == y)

def f_ArrayContains(a):
    need(len(a) == 2 and isinstance(a[0], list))
    return any(jeq(x, a[1]) for x in a[0])

def f_ArrayRange(a):
    need(len(a) == 3 and all(is_int(x) for x in a) and a[2] != 0)
    if a[2] < 0:
        raise Unspecified("negative increment")
    out = list(range(a[0], a[1] + 1, a[2]))
    need(len(out) <= 1000)
    return out

def f_ArrayGetItem(a):
    need(len(a) == 2 and isinstance(a[0], list) and is_int(a[1]) and 0 <= a[1] < len(a[0]))
    return a[0][a[1]]

def f_ArrayLength(a):
    need(len(a) == 1 and isinstance(a[0], list))
    return len(a[0])

def f_ArrayUnique(a):
    need(len(a) == 1 and isinstance(a[0], list))
    out = []
    for x in a[0]:
        if not any(jeq(x, y) for y in out):
            out.append(x)
    return ("multiset", out)

def f_Base64Encode(a):
    need(len(a) == 1 and isinstance(a[0], str))
    return base64.b64encode(a[0].encode("utf8")).decode("ascii")

def f_Base64Decode(a):
    need(len(a) == 1 and isinstance(a[0], str))
    try:
        return base64.b64decode(a[0].encode("utf8"), validate=True).decode("utf8")
    except (binascii.Error, ValueError):
        raise IntrinsicFailure("not base64")

def f_Hash(a):
    need(len(a) == 2 and isinstance(a[0], str) and isinstance(a[1], str))
    algo = {"MD5": "md5", "SHA-1": "sha1", "SHA-256": "sha256", "SHA-384": "sha384", "SHA-512": "sha512"}.get(a[1])
    need(algo is not None)
    return hashlib.new(algo, a[0].encode("utf8")).hexdigest()

def f_JsonMerge(a):
    need(len(a) == 3 and isinstance(a[0], dict) and isinstance(a[1], dict) and a[2] is False)
    out = dict(a[0]); out.update(a[1])
    return out

def f_MathAdd(a):
    need(len(a) == 2 and is_int(a[0]) and is_int(a[1]))
    return a[0] + a[1]

def f_MathRandom(a):
    need(len(a) in (2, 3) and is_int(a[0]) and is_int(a[1]))
    raise Unspecified("random")

def f_StringSplit(a):
    need(len(a) == 2 and isinstance(a[0], str) and isinstance(a[1], str))
    s, seps = a
    if not seps:
        raise Unspecified("empty separator set")
    parts, cur = [], []
    for ch in s:
        if ch in seps:
            parts.append("".join(cur)); cur = []
        else:
            cur.append(ch)
    parts.append("".join(cur))
    if any(p == "" for p in parts):
        raise Unspecified("empty fields between separators")
    return parts

def f_UUID(a):
    need(len(a) == 0)
    return ("uuid",)

FUNCS = {"States." + k[2:]: v for k, v in list(globals().items()) if k.startswith("f_")}

def evaluate_call(c, inp, ctx):
    if c.name not in FUNCS:
        raise IntrinsicFailure("unknown function %s" % c.name)
    args = []
    for i, a in enumerate(c.args):
        if isinstance(a, Call):
            v = evaluate_call(a, inp, ctx)
            if isinstance(v, tuple):
                raise Unspecified("nested result with loose comparison")
            args.append(v)
        elif isinstance(a, Path):
            try:
                args.append(copy.deepcopy(JP.apply_path(inp, ctx, a.text)))
            except JP.NoMatch:
                raise PathFailure(a.text)
            except JP.BadPath:
                raise Unspecified("path outside the reference grammar")
        else:
            kind, v = a.value
            if kind == "str":
                if c.name == "States.Format" and i == 0:
                    args.append(("tmpl", v))
                else:
                    args.append(unescape(v))
            else:
                args.append(v)
    return FUNCS[c.name](args)

def intrinsic(text, inp, ctx):
    return evaluate_call(parse(text), inp, ctx)

# ---------------------------------------------------------------------------------------------------
def payload(template, inp, ctx):
    """Evaluate a Payload Template (Parameters / ItemSelector / ResultSelector).  None -> input unchanged."""
    if template is None:
        return inp
    def ev(v):
        if not isinstance(v, str):
            raise Unspecified(".$ member whose value is not a string")
        if v.startswith("$"):
            try:
                return copy.deepcopy(JP.apply_path(inp, ctx, v))
            except JP.NoMatch:
                raise PathFailure(v)
            except JP.BadPath:
                raise Unspecified("path outside the reference grammar")
        r = intrinsic(v, inp, ctx)
        if isinstance(r, tuple):
            raise Unspecified("loose result inside a template")
        return r
    def walk(t):
        if isinstance(t, dict):
            out = {}
            for k, v in t.items():
                if isinstance(k, str) and k.endswith(".$"):
                    out[k[:-2]] = ev(v)
                else:
                    out[k] = walk(v)
            return out
        if isinstance(t, list):
            return [walk(x) for x in t]
        return copy.deepcopy(t)
    return walk(template)
