"""Strict RFC 3339 date-time -> exact instant (Fraction seconds since the Unix epoch).  No engine imports."""
import re, datetime
from fractions import Fraction

_RE = re.compile(r"^(\d{4})-(\d{2})-(\d{2})[Tt](\d{2}):(\d{2}):(\d{2})(?:\.(\d+))?(?:([Zz])|([+-])(\d{2}):(\d{2}))$")

class Invalid(ValueError):
    pass

def parse(s):
    if not isinstance(s, str):
        raise Invalid("not a string")
    m = _RE.match(s)
    if not m:
        raise Invalid("not an RFC 3339 date-time: %r" % (s,))
    y, mo, d, h, mi, sec = (int(m.group(i)) for i in range(1, 7))
    if not (1 <= mo <= 12 and h <= 23 and mi <= 59 and sec <= 59):
        raise Invalid("field out of range in %r" % (s,))
    try:
        days = datetime.date(y, mo, d).toordinal() - datetime.date(1970, 1, 1).toordinal()
    except ValueError as e:
        raise Invalid(str(e))
    t = Fraction(days * 86400 + h * 3600 + mi * 60 + sec)
    if m.group(7):
        t += Fraction(int(m.group(7)), 10 ** len(m.group(7)))
    if not m.group(8):
        oh, om = int(m.group(10)), int(m.group(11))
        if oh > 23 or om > 59:
            raise Invalid("offset out of range in %r" % (s,))
        off = oh * 3600 + om * 60
        t -= off if m.group(9) == "+" else -off
    return t

def is_valid(s):
    try:
        parse(s)
        return True
    except Invalid:
        return False

def fmt(t, offset_minutes=None, frac_digits=0):
    """Render instant t (Fraction/float/int seconds) in the given offset (None -> 'Z')."""
    t = Fraction(t)
    off = 0 if offset_minutes is None else offset_minutes * 60
    local = t + off
    whole = local.numerator // local.denominator
    frac = local - whole
    dt = datetime.datetime(1970, 1, 1) + datetime.timedelta(seconds=int(whole))
    s = dt.strftime("%Y-%m-%dT%H:%M:%S")
    if frac_digits:
        digits = int(frac * 10 ** frac_digits)
        s += "." + str(digits).rjust(frac_digits, "0")
    if offset_minutes is None:
        return s + "Z"
    sign = "+" if offset_minutes >= 0 else "-"
    a = abs(offset_minutes)
    return s + "%s%02d:%02d" % (sign, a // 60, a % 60)
