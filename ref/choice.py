"""Reference semantics of Choice rules (States Language, "Choice State").  No engine imports."""
from . import jsonpath as JP
from . import rfc3339

class NoChoiceMatched(Exception):
    pass
class Ambiguous(Exception):
    """The statement does not determine the outcome; the caller must not judge this case."""

REL = {
    "Equals": lambda a, b: a == b, "LessThan": lambda a, b: a < b, "GreaterThan": lambda a, b: a > b,
    "LessThanEquals": lambda a, b: a <= b, "GreaterThanEquals": lambda a, b: a >= b,
}
OPERATORS = ([p + r for p in ("String", "Numeric", "Timestamp") for r in REL] + ["BooleanEquals"])
OPERATORS = OPERATORS + [o + "Path" for o in OPERATORS] + ["StringMatches", "IsNull", "IsPresent", "IsNumeric", "IsString", "IsBoolean", "IsTimestamp"]
assert len(OPERATORS) == 39

def is_number(x):
    return isinstance(x, (int, float)) and not isinstance(x, bool)

def wildcard(pattern, s):
    """'*' matches any run of characters; '\\*' is a literal '*', '\\\\' a literal backslash; nothing else is special.
    (The statement does not say what a backslash before any other character means; the check's alphabet avoids it.)"""
    toks, i = [], 0
    while i < len(pattern):
        c = pattern[i]
        if c == "\\" and i + 1 < len(pattern) and pattern[i + 1] in "*\\":
            toks.append(("lit", pattern[i + 1])); i += 2
        elif c == "*":
            toks.append(("star",)); i += 1
        else:
            toks.append(("lit", c)); i += 1
    def m(ti, si):
        if ti == len(toks):
            return si == len(s)
        if toks[ti][0] == "star":
            return any(m(ti + 1, k) for k in range(si, len(s) + 1))
        return si < len(s) and s[si] == toks[ti][1] and m(ti + 1, si + 1)
    return m(0, 0)

def rule(r, inp, ctx):
    """True / False for one Choice Rule (possibly a Boolean tree) on effective input `inp`."""
    if "And" in r:
        return all(rule(x, inp, ctx) for x in r["And"])
    if "Or" in r:
        return any(rule(x, inp, ctx) for x in r["Or"])
    if "Not" in r:
        return not rule(r["Not"], inp, ctx)
    ops = [k for k in r if k in OPERATORS]
    if len(ops) != 1:
        raise Ambiguous("rule must have exactly one comparison operator")
    op = ops[0]
    const = r[op]
    try:
        var = JP.apply_path(inp, ctx, r.get("Variable"))
        present = True
    except JP.NoMatch:
        var, present = None, False
    if op == "IsPresent":
        return present == const
    if op in ("IsNull", "IsNumeric", "IsString", "IsBoolean", "IsTimestamp"):
        if not present:
            raise Ambiguous("type test on a missing Variable")
        fact = {"IsNull": var is None, "IsNumeric": is_number(var), "IsString": isinstance(var, str),
                "IsBoolean": isinstance(var, bool),
                "IsTimestamp": isinstance(var, str) and rfc3339.is_valid(var)}[op]
        return fact == const
    if not present:
        return False          # a rule whose Variable does not exist never matches, whatever it is compared with
    if op.endswith("Path"):
        op = op[:-4]
        try:
            const = JP.apply_path(inp, ctx, const)
        except JP.NoMatch:
            raise Ambiguous("comparison path matches nothing")
    if op == "StringMatches":
        return isinstance(var, str) and isinstance(const, str) and wildcard(const, var)
    if op == "BooleanEquals":
        return isinstance(var, bool) and isinstance(const, bool) and var == const
    for prefix in ("String", "Numeric", "Timestamp"):
        if op.startswith(prefix):
            rel = REL[op[len(prefix):]]
            if prefix == "String":
                return isinstance(var, str) and isinstance(const, str) and rel(var, const)
            if prefix == "Numeric":
                return is_number(var) and is_number(const) and rel(var, const)
            if not (isinstance(var, str) and isinstance(const, str)):
                return False
            try:
                a, b = rfc3339.parse(var), rfc3339.parse(const)
            except rfc3339.Invalid:
                return False
            return rel(a, b)
    raise Ambiguous(op)

def choose(state, inp, ctx):
    """Next state name, or raises NoChoiceMatched."""
    for r in state.get("Choices", []):
        if rule(r, inp, ctx):
            return r["Next"]
    if "Default" in state:
        return state["Default"]
    raise NoChoiceMatched()
