"""
Big-step reference interpreter for the Amazon States Language (the subset the engine supports).  No engine imports.

run(definition, input, tasks, ...) -> Outcome(status, output | error, cause, trace, task_log)

`tasks` is a callable (resource_arn, payload, now) -> ("ok", value) | ("err", type, message) | ("timeout",)
that owns attempt counting, which is what "the behaviour of the invoked tasks held fixed" means.
Time is logical: Wait and retry intervals move `clock`; nothing else takes time.
"""
import json, copy
from . import jsonpath as JP, template as TP, choice as CH, rfc3339

MAX_DATA = 262144
UNRECOVERABLE = ("States.Runtime", "States.ExecutionTimeout", "Task.Terminated")
RUNTIME_CLASS = ("States.Runtime", "States.ParameterPathFailure")   # path failures: the statement does not pick one

class Unjudged(Exception):
    """The statement / specification does not determine this run (ambiguous construct)."""

class StateError(Exception):
    def __init__(self, error, cause=""):
        Exception.__init__(self, error, cause)
        self.error, self.cause = error, cause

class Outcome(object):
    def __init__(self):
        self.status = None; self.output = None; self.error = None; self.cause = None
        self.trace = []; self.task_log = []; self.end_time = 0.0; self.error_alternatives = None
    def key(self):
        return [self.status, self.output if self.status == "SUCCEEDED" else self.error]

class Interp(object):
    def __init__(self, definition, tasks, context, inband=False, start_time=0.0, exec_timeout=None, nullread=False):
        self.d = definition; self.tasks = tasks; self.ctx = context; self.inband = inband
        self.nullread = nullread     # defect model: any path applied to a null document yields {}
        self.clock = start_time; self.start = start_time
        self.out = Outcome()
        self.exec_timeout = definition.get("TimeoutSeconds", exec_timeout)

    # -- helpers ---------------------------------------------------------------------------------
    def path(self, data, p, ctx=None):
        if self.nullread and data is None and not (isinstance(p, str) and p.startswith("$$")):
            return {}
        try:
            return copy.deepcopy(JP.apply_path(data, ctx or self.ctx, p))
        except JP.NoMatch:
            raise StateError("States.Runtime", "path %s matches nothing" % p)
        except JP.BadPath:
            raise Unjudged("path outside the reference grammar: %r" % (p,))

    def template(self, t, inp, ctx=None):
        try:
            return TP.payload(t, inp, ctx or self.ctx)
        except TP.PathFailure as e:
            raise StateError("States.Runtime", "path %s matches nothing" % e)
        except TP.IntrinsicFailure as e:
            raise StateError("States.IntrinsicFailure", str(e))
        except TP.Unspecified as e:
            raise Unjudged(str(e))

    def place(self, raw, result, rp):
        try:
            return JP.put(raw, rp, result)
        except JP.Unplaceable as e:
            raise StateError("States.ResultPathMatchFailure", str(e))
        except JP.BadPath:
            raise Unjudged("ResultPath outside the reference grammar")

    def check_size(self, data):
        if len(json.dumps(data)) > MAX_DATA:
            raise StateError("States.DataLimitExceeded", "")

    def check_exec_timeout(self):
        if self.exec_timeout is not None and self.clock - self.start >= self.exec_timeout:
            raise StateError("States.ExecutionTimeout", "")

    # -- error handling --------------------------------------------------------------------------
    @staticmethod
    def matches(equals, err):
        if "States.TaskFailed" in equals:
            raise Unjudged("States.TaskFailed in ErrorEquals")
        if err in equals:
            return True
        if "States.ALL" in equals:
            if equals != ["States.ALL"]:
                raise Unjudged("States.ALL must appear alone")
            return True
        return False

    def with_handlers(self, name, st, raw, body, ctx_state):
        """Run body() under the Retry/Catch policy of state `st`.  Returns (data, next state name or None)."""
        counts = {}
        while True:
            try:
                return body(), None
            except StateError as e:
                err = e.error
                if err in UNRECOVERABLE:
                    raise
                retried = False
                for i, r in enumerate(st.get("Retry") or []):
                    if self.matches(r["ErrorEquals"], err):
                        n = counts.get(i, 0)
                        if n < r.get("MaxAttempts", 3):
                            rate = r.get("BackoffRate", 2.0)
                            self.clock += r.get("IntervalSeconds", 1) * (rate ** n)
                            counts[i] = n + 1
                            retried = True
                        break
                if retried:
                    self.check_exec_timeout()
                    continue
                for c in st.get("Catch") or []:
                    if self.matches(c["ErrorEquals"], err):
                        eo = {"Error": err}
                        if e.cause:
                            eo["Cause"] = e.cause
                        data = self.place(raw, eo, c.get("ResultPath", "$"))
                        self.check_size(data)
                        return data, c["Next"]
                raise

    # -- states ----------------------------------------------------------------------------------
    def run_machine(self, machine, data, branch=()):
        """Run a (sub) state machine from StartAt; returns its output or raises StateError."""
        name = machine["StartAt"]
        steps = 0
        while True:
            steps += 1
            if steps > 2000:
                raise Unjudged("non-terminating machine")
            st = machine["States"].get(name)
            if st is None:
                raise StateError("States.Runtime", "no state %s" % name)
            self.ctx["State"] = {"Name": name}
            self.out.trace.append(("enter", name, branch))
            t = st.get("Type")
            fn = getattr(self, "st_" + str(t), None)
            if fn is None:
                raise StateError("States.Runtime", "illegal Type")
            data, nxt, terminal = fn(name, st, data, branch)
            if terminal == "fail":
                raise StateError(data["Error"], data.get("Cause", ""))
            self.out.trace.append(("exit", name, branch))
            if terminal == "succeed":
                return data
            if nxt is None:
                if st.get("End"):
                    self.check_size(data)
                    return data
                raise StateError("States.Runtime", "missing Next")
            self.check_size(data)
            name = nxt

    def finish(self, st, raw, result):
        out = self.place(raw, result, st.get("ResultPath", "$"))
        return self.path(out, st.get("OutputPath", "$"))

    def st_Pass(self, name, st, data, branch):
        inp = self.path(data, st.get("InputPath", "$"))
        params = self.template(st.get("Parameters"), inp)
        result = st["Result"] if "Result" in st else params
        return self.finish(st, data, result), st.get("Next"), None

    def st_Succeed(self, name, st, data, branch):
        inp = self.path(data, st.get("InputPath", "$"))
        return self.path(inp, st.get("OutputPath", "$")), None, "succeed"

    def st_Fail(self, name, st, data, branch):
        return {"Error": st.get("Error"), "Cause": st.get("Cause")}, None, "fail"

    def st_Choice(self, name, st, data, branch):
        inp = self.path(data, st.get("InputPath", "$"))
        try:
            nxt = CH.choose(st, inp, self.ctx)
        except CH.NoChoiceMatched:
            raise StateError("States.NoChoiceMatched", "")
        except CH.Ambiguous as e:
            raise Unjudged(str(e))
        return self.path(inp, st.get("OutputPath", "$")), nxt, None

    def st_Wait(self, name, st, data, branch):
        inp = self.path(data, st.get("InputPath", "$"))
        entered = self.clock
        target = entered
        if "Seconds" in st:
            target = entered + st["Seconds"]
        elif "SecondsPath" in st:
            v = self.path(inp, st["SecondsPath"])
            if not isinstance(v, (int, float)) or isinstance(v, bool):
                raise Unjudged("SecondsPath not a number")
            target = entered + v
        elif "Timestamp" in st or "TimestampPath" in st:
            ts = st.get("Timestamp") or self.path(inp, st["TimestampPath"])
            try:
                target = float(rfc3339.parse(ts)) - self.ctx.get("__epoch", 0.0)
            except rfc3339.Invalid:
                raise Unjudged("invalid timestamp")
        deadline = None if self.exec_timeout is None else self.start + self.exec_timeout
        if deadline is not None and max(target, entered) >= deadline and deadline >= entered:
            if max(target, entered) > deadline:
                self.clock = deadline
                raise StateError("States.ExecutionTimeout", "")
            raise Unjudged("wait ends exactly at the execution deadline")
        self.clock = max(entered, target)
        return self.path(inp, st.get("OutputPath", "$")), st.get("Next"), None

    def st_Task(self, name, st, data, branch):
        def body():
            if str(st.get("Resource")).endswith(".waitForTaskToken"):
                raise Unjudged("task-token callbacks are outside the reference interpreter (judged by M-child / M-time)")
            inp = self.path(data, st.get("InputPath", "$"))
            params = self.template(st.get("Parameters"), inp)
            t0 = self.clock
            self.out.task_log.append((name, branch, json.dumps(params, sort_keys=True), t0))
            res = self.tasks(st.get("Resource"), params, t0)
            tmo = st.get("TimeoutSeconds")
            if st.get("TimeoutSecondsPath"):
                # a reference path into the state's input giving the number of seconds
                tmo = self.path(data, st["TimeoutSecondsPath"])
                if isinstance(tmo, bool) or not isinstance(tmo, int) or tmo <= 0:
                    raise Unjudged("TimeoutSecondsPath does not select a positive integer")
            deadline = None if self.exec_timeout is None else self.start + self.exec_timeout
            if res[0] == "timeout":
                state_deadline = None if tmo is None else t0 + tmo
                if state_deadline is None and deadline is None:
                    raise Unjudged("task never replies and nothing times out")
                if deadline is not None and (state_deadline is None or deadline < state_deadline):
                    self.clock = deadline
                    raise StateError("States.ExecutionTimeout", "")
                if deadline is not None and deadline == state_deadline:
                    raise Unjudged("task and execution deadlines coincide")
                self.clock = state_deadline
                raise StateError("States.Timeout", "")
            if res[0] == "err":
                raise StateError(res[1], res[2] if len(res) > 2 else "")
            result = res[1]
            if self.inband and isinstance(result, dict) and result.get("Error"):
                raise StateError("States.TaskFailed", json.dumps(result))
            if len(json.dumps(result)) > MAX_DATA:
                raise StateError("States.DataLimitExceeded", "")
            result = self.template(st.get("ResultSelector"), result)
            out = self.finish(st, data, result)
            if "Next" in st:
                # a transition refused because the state's output exceeds the data quota is a failure *of this state*: its own
                # retriers and catchers apply (the engine hands change_state's error to the state's handle_error)
                self.check_size(out)
            return out
        out, nxt = self.with_handlers(name, st, data, body, None)
        return out, (nxt or st.get("Next")), None

    def st_Parallel(self, name, st, data, branch):
        def body():
            inp = self.path(data, st.get("InputPath", "$"))
            params = self.template(st.get("Parameters"), inp)
            t0 = self.clock
            results, errors, tmax = [], [], t0
            saved_state = self.ctx.get("State")
            for i, br in enumerate(st.get("Branches", [])):
                self.clock = t0
                try:
                    r = self.run_machine(br, copy.deepcopy(params), branch + ((name, i),))
                    if self.inband and isinstance(r, dict) and r.get("Error"):
                        raise StateError(r["Error"], r.get("Cause", ""))
                    results.append(r)
                except StateError as e:
                    errors.append((self.clock, e))
                tmax = max(tmax, self.clock)
            self.ctx["State"] = saved_state
            if errors:
                errors.sort(key=lambda x: x[0])
                first = [e for t, e in errors if t == errors[0][0]]
                self.clock = errors[0][0]
                if len(set(e.error for e in first)) > 1:
                    raise Unjudged("several branches fail at the same instant with different errors")
                raise first[0]
            self.clock = tmax
            results = self.template(st.get("ResultSelector"), results)
            out = self.finish(st, data, results)
            if "Next" in st:
                self.check_size(out)      # a refused transition is a failure of this state (see st_Task)
            return out
        out, nxt = self.with_handlers(name, st, data, body, None)
        return out, (nxt or st.get("Next")), None

    def st_Map(self, name, st, data, branch):
        def body():
            inp = self.path(data, st.get("InputPath", "$"))
            items = self.path(inp, st.get("ItemsPath", "$"))
            if not isinstance(items, list):
                raise Unjudged("ItemsPath does not select an array")
            proc = st.get("ItemProcessor") or st.get("Iterator")
            if "Iterator" in st:
                sel = st.get("Parameters", st.get("ItemSelector"))
            else:
                sel = st.get("ItemSelector", st.get("Parameters"))
            maxc = st.get("MaxConcurrency", 0) or len(items)
            t0 = self.clock
            results, errors = [], []
            saved_state = self.ctx.get("State")
            slots = [t0] * max(1, maxc)       # batch model of MaxConcurrency: batch k starts when batch k-1 has finished
            batch_start = t0
            for i, item in enumerate(items):
                if maxc and i and i % maxc == 0:
                    batch_start = max(slots)
                    slots = [batch_start] * maxc
                self.clock = batch_start
                if sel is not None:
                    ctx = dict(self.ctx); ctx["Map"] = {"Item": {"Index": i, "Value": item}}
                    ctx["State"] = {"Name": name}
                    it_in = self.template(sel, inp, ctx)
                else:
                    it_in = copy.deepcopy(item)
                try:
                    r = self.run_machine(proc, it_in, branch + ((name, i),))
                    if self.inband and isinstance(r, dict) and r.get("Error"):
                        raise StateError(r["Error"], r.get("Cause", ""))
                    results.append(r)
                except StateError as e:
                    errors.append((self.clock, e))
                slots[i % max(1, maxc)] = self.clock
            self.ctx["State"] = saved_state
            if errors:
                errors.sort(key=lambda x: x[0])
                first = [e for t, e in errors if t == errors[0][0]]
                self.clock = errors[0][0]
                if len(set(e.error for e in first)) > 1:
                    raise Unjudged("several iterations fail at the same instant with different errors")
                raise first[0]
            self.clock = max(slots) if items else t0
            results = self.template(st.get("ResultSelector"), results)
            out = self.finish(st, data, results)
            if "Next" in st:
                self.check_size(out)      # a refused transition is a failure of this state (see st_Task)
            return out
        out, nxt = self.with_handlers(name, st, data, body, None)
        return out, (nxt or st.get("Next")), None

def run(definition, input, tasks, context=None, inband=False, exec_timeout=None, nullread=False):
    ctx = copy.deepcopy(context) if context else {}
    ctx.setdefault("Execution", {}).setdefault("Input", copy.deepcopy(input))
    it = Interp(definition, tasks, ctx, inband=inband, exec_timeout=exec_timeout, nullread=nullread)
    o = it.out
    try:
        data = it.run_machine(definition, copy.deepcopy(input))
        if inband and isinstance(data, dict) and data.get("Error"):
            o.status, o.error, o.cause = "FAILED", data.get("Error"), data.get("Cause")
        else:
            o.status, o.output = "SUCCEEDED", data
    except StateError as e:
        o.status = "FAILED"
        o.error = "States.Timeout" if e.error == "States.ExecutionTimeout" else e.error
        o.cause = e.cause
    o.end_time = it.clock
    return o

def _strip_cause(x):
    """Attempts are counted per payload without the free text of error causes (same rule as harness.world.Worker)."""
    if isinstance(x, dict):
        return {k: _strip_cause(v) for k, v in x.items() if k != "Cause"}
    if isinstance(x, list):
        return [_strip_cause(v) for v in x]
    return x

REQUEST_ID = "<<request id: any string>>"

class ScriptedTasks(object):
    """Same outcome rule as harness.world.Worker: key = JSON text of the payload, '*' default, attempts counted per key."""
    def __init__(self, workers):
        self.workers = workers
        self.attempts = {}
    def __call__(self, resource, payload, now):
        if str(resource) == "arn:aws:states:local::rpcmessage:invoke":
            # the long form: the function is named by Parameters.FunctionName, its argument is Parameters.Payload ({} when absent) and
            # the function's result comes back wrapped in invocation metadata
            fn = payload.get("FunctionName") if isinstance(payload, dict) else None
            if not (isinstance(fn, str) and fn.startswith("arn:aws:rpcmessage:")):
                raise Unjudged("long-form invocation without a usable FunctionName")
            r = self(fn, payload.get("Payload", {}), now)
            if r[0] == "ok":
                return ("ok", {"ExecutedVersion": "$LATEST", "Payload": r[1], "SdkResponseMetadata": {"RequestId": REQUEST_ID}, "StatusCode": 200})
            return r
        if not str(resource).startswith("arn:aws:rpcmessage:"):
            raise Unjudged("service integration %s is outside the reference interpreter" % resource)
        fname = resource.rsplit(":", 1)[-1]
        spec = self.workers.get(fname)
        if spec is None:
            return ("err", "States.TaskFailed", "Function not found: " + str(resource))
        key = json.dumps(payload, sort_keys=True)
        lst = spec.get(key)
        if lst is None:
            lst = spec.get("*", [["echo"]])
        akey = (fname, json.dumps(_strip_cause(payload), sort_keys=True))
        n = self.attempts.get(akey, 0)
        self.attempts[akey] = n + 1
        out = lst[min(n, len(lst) - 1)]
        if out[0] == "ok":
            return ("ok", copy.deepcopy(out[1]))
        if out[0] == "echo":
            return ("ok", copy.deepcopy(payload))
        if out[0] == "err":
            return ("err", out[1], out[2] if len(out) > 2 else "")
        if out[0] == "none":
            return ("timeout",)
        if out[0] == "okstr":
            return ("ok", "x" * (out[1] - 2))
        raise Unjudged("outcome %r" % (out,))
