#!/bin/bash
# usage: regress_mutants.sh [seed-id-glob]  -- for every kept seeded change: apply it to a scratch worktree of /repo HEAD,
# run the quick checks named in meta.json caught_by against it (VERIF_REPO), and report whether each still raises a VIOLATION.
# Evidence/replays of these runs go to /tmp/lsfverif-scratch-out (never into /verif/evidence).
PAT=${1:-*}
WT=/tmp/wt-regress-$$
HERE="$(cd "$(dirname "$0")/.." && pwd)"
git -C /repo worktree remove --force $WT 2>/dev/null
git -C /repo worktree add --detach $WT HEAD -q || exit 2
trap 'git -C /repo worktree remove --force $WT' EXIT
cd $HERE
miss=0
for d in seeded/$PAT/; do
  id=$(basename $d)
  git -C $WT reset -q --hard HEAD; git -C $WT clean -fdq
  if ! git -C $WT apply $PWD/$d/patch.diff 2>/dev/null; then
    git -C $WT reset -q --hard HEAD
    if ! git -C $WT apply --3way $PWD/$d/patch.diff 2>/dev/null || git -C $WT diff --name-only --diff-filter=U | grep -q .; then git -C $WT reset -q --hard HEAD; echo "$id PATCH-DOES-NOT-APPLY"; continue; fi
  fi
  checks=$(jq -r '.caught_by[]' $d/meta.json | sed 's/(.*//' | sort -u)
  line="$id"
  for c in $checks; do
    VERIF_REPO=$WT VERIF_SCRATCH_OUT=/tmp/lsfverif-scratch-out-$$ ./vf check $c > /tmp/regress.$$.out 2>&1; rc=$?
    n=$(grep -c '^VIOLATION' /tmp/regress.$$.out)
    if [ $rc -eq 1 ] && [ $n -gt 0 ]; then line="$line $c:CAUGHT($n)"; else line="$line $c:MISSED(rc=$rc)"; miss=1; fi
  done
  echo "$line"
done
exit $miss
