#!/venv/bin/python
"""usage: cover_report.py <coverdir> [file-substring]   (see harness/cover.py): lists engine source lines that no process of the
recorded check runs executed, as ranges with their text.  Development aid used to find corpus gaps."""
import sys, os, glob, re, collections
d = sys.argv[1]; only = sys.argv[2] if len(sys.argv) > 2 else ""
hit = collections.defaultdict(set)
for f in glob.glob(os.path.join(d, "*.txt")):
    for l in open(f):
        fn, _, n = l.strip().rpartition(":")
        if n.isdigit():
            hit[os.path.realpath(fn)].add(int(n))
def exec_lines(path):
    src = open(path).read()
    code = compile(src, path, "exec")
    out = set()
    todo = [code]
    while todo:
        c = todo.pop()
        for _, _, ln in c.co_lines():
            if ln:
                out.add(ln)
        todo += [k for k in c.co_consts if hasattr(k, "co_lines")]
    return out, src.split("\n")
SKIP = re.compile(r"logger\.|^\s*\"\"\"|^\s*#|opentracing|span\.|\.inc\(|\.observe\(|^\s*pass$|^\s*else:$|^\s*try:$|^\s*\)$|^\s*\}$|^\s*\]$")
tot = un = 0
for fn in sorted(hit):
    if only not in fn:
        continue
    ex, lines = exec_lines(fn)
    miss = sorted(l for l in ex - hit[fn] if not SKIP.search(lines[l - 1]))
    tot += len(ex); un += len(miss)
    print("== %s: %d executable, %d not reached" % (fn, len(ex), len(miss)))
    i = 0
    while i < len(miss):
        j = i
        while j + 1 < len(miss) and miss[j + 1] - miss[j] <= 2:
            j += 1
        for l in range(miss[i], miss[j] + 1):
            if l in ex:
                print("  %5d %s" % (l, lines[l - 1][:150]))
        print("  -----")
        i = j + 1
print("total executable %d, not reached %d" % (tot, un))
