import json
props = [json.loads(l) for l in open("/verif/properties.jsonl")]
built = {}
import importlib, sys
sys.path.insert(0, "/verif")
from checks import manifest_data as md
checks = []
na = []
for p in props:
    pid = p["id"]
    if pid in md.CHECKS:
        c = md.CHECKS[pid]
        checks.append({
            "property_id": pid,
            "quick_cmd": "./vf check %s --tier quick" % pid,
            "thorough_cmd": "./vf check %s --tier thorough" % pid,
            "evidence_file": "evidence/%s.json" % pid,
            "replay_cmd_template": "./vf replay {path}",
            "engine": c.get("engine", "explorer"),
            "level_claimed": {"category": "model_checking", "text": c["text"], "design_ref": c.get("ref", "DESIGN.md 7 " + pid)},
            "level_note": c["note"],
            "technique": c["technique"],
        })
    else:
        na.append({"property_id": pid, "reason": md.NA.get(pid, "check not built yet in this session (see DESIGN.md 11 build order); no claim is made")})
m = {
    "version": 1,
    "setup_cmd": "./vf setup",
    "hooks": {"guard": "LSF_VERIF", "enable": "none needed: checks import the engine from /repo by path and replace pika/time/uuid from outside; no source hooks exist",
              "baseline_off_cmd": "cd /repo && /venv/bin/python -m pytest -ra -q -p no:cacheprovider --timeout=900 --continue-on-collection-errors",
              "source_commits": [], "add_only": True},
    "engines": md.ENGINES,
    "checks": checks,
    "not_applicable": na,
    "notes": md.NOTES,
}
json.dump(m, open("/verif/MANIFEST.json", "w"), indent=1)
print(len(checks), "checks;", len(na), "not claimed")
