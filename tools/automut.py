#!/venv/bin/python
"""
Mechanical mutation survey (a development aid, not a registered check): applies small syntactic changes to the engine
sources in a scratch worktree, keeps those under which the repository's own tests still give the baseline result,
runs a set of quick checks against each (VERIF_REPO) and reports which changes no check notices.  Survivors are
read by hand: most are equivalent (logging, tracing, metrics, dead code); the rest point at holes in the corpora.

usage: automut.py <out.jsonl> <file:stride:offset>... [--checks C02,C03,...] [--jobs N] [--limit N]
"""
import ast, os, sys, json, subprocess, shutil, re, random, time, multiprocessing

REPO = "/repo"
SRC = "asl-workflow-engine/py/asl_workflow_engine/"
BASELINE_FAIL = {"test_global_context", "test_intrinsic_functions", "test_payload_template"}
SKIP_CALL = re.compile(r"logger\.|\.inc\(|\.observe\(|opentracing|span|print\(|\.set_tag|\.log_kv")

def candidates(path):
    """(lineno, col, end_lineno, end_col, kind, replacement text) for every mutation site of the file."""
    text = open(path).read()
    tree = ast.parse(text)
    lines = text.split("\n")
    out = []
    def seg(n):
        return ast.get_source_segment(text, n)
    for node in ast.walk(tree):
        if isinstance(node, ast.If) or isinstance(node, ast.While):
            t = seg(node.test)
            if t and not SKIP_CALL.search(t):
                out.append((node.test, "negate-condition", "(not (%s))" % t))
        if isinstance(node, ast.Compare) and len(node.ops) == 1:
            t = seg(node)
            l, r = seg(node.left), seg(node.comparators[0])
            sw = {ast.Eq: "!=", ast.NotEq: "==", ast.Lt: "<=", ast.LtE: "<", ast.Gt: ">=", ast.GtE: ">", ast.In: "not in", ast.NotIn: "in", ast.Is: "is not", ast.IsNot: "is"}
            op = sw.get(type(node.ops[0]))
            if t and l and r and op and not SKIP_CALL.search(t) and type(node.ops[0]) in (ast.Lt, ast.LtE, ast.Gt, ast.GtE):
                out.append((node, "relax-comparison", "%s %s %s" % (l, op, r)))
        if isinstance(node, ast.BoolOp):
            t = seg(node)
            if t and not SKIP_CALL.search(t) and len(node.values) == 2:
                a, b = seg(node.values[0]), seg(node.values[1])
                if a and b:
                    out.append((node, "swap-boolop", "(%s) %s (%s)" % (a, "or" if isinstance(node.op, ast.And) else "and", b)))
        if isinstance(node, ast.Expr) and isinstance(node.value, ast.Call):
            t = seg(node)
            if t and not SKIP_CALL.search(t) and not t.startswith('"""'):
                out.append((node, "delete-call", "pass"))
        if isinstance(node, ast.Delete):
            t = seg(node)
            if t:
                out.append((node, "delete-del", "pass"))
        if isinstance(node, ast.Assign) and isinstance(node.value, ast.Constant) and isinstance(node.value.value, bool):
            t = seg(node.value)
            out.append((node.value, "flip-bool", "False" if node.value.value else "True"))
    res = []
    for n, kind, rep in out:
        res.append((n.lineno, n.col_offset, n.end_lineno, n.end_col_offset, kind, rep))
    res.sort()
    return res

def apply(path, site):
    l0, c0, l1, c1, kind, rep = site
    lines = open(path).read().split("\n")
    # ast columns are utf8 byte offsets
    def cut(line, col):
        return line.encode("utf8")[:col].decode("utf8"), line.encode("utf8")[col:].decode("utf8")
    pre, _ = cut(lines[l0 - 1], c0)
    _, post = cut(lines[l1 - 1], c1)
    new = pre + rep + post
    lines[l0 - 1:l1] = [new]
    open(path, "w").write("\n".join(lines))

def run(cmd, cwd=None, env=None, timeout=1200):
    try:
        p = subprocess.run(cmd, cwd=cwd, env=env, stdout=subprocess.PIPE, stderr=subprocess.STDOUT, timeout=timeout)
        return p.returncode, p.stdout.decode("utf8", "replace")
    except subprocess.TimeoutExpired:
        return 124, "TIMEOUT"

def worker(args):
    wid, jobs, checks, outpath = args
    wt = "/tmp/wt-automut-%d" % wid
    run(["git", "-C", REPO, "worktree", "remove", "--force", wt])
    run(["git", "-C", REPO, "worktree", "add", "--detach", wt, "HEAD", "-q"])
    res = []
    try:
        for fname, site in jobs:
            run(["git", "-C", wt, "checkout", "-q", "--", "."])
            path = os.path.join(wt, SRC, fname)
            orig = open(path).read().split("\n")
            apply(path, site)
            rec = {"file": fname, "line": site[0], "kind": site[4], "replacement": site[5][:200], "original": "\n".join(orig[site[0] - 1:site[2]])[:300]}
            rc, out = run(["/venv/bin/python", "-c", "import ast,sys; ast.parse(open(sys.argv[1]).read())", path])
            if rc != 0:
                rec["status"] = "syntax"; res.append(rec); continue
            rc, out = run(["/venv/bin/python", "-m", "pytest", "-q", "-p", "no:cacheprovider", "--timeout=300", "--continue-on-collection-errors"], cwd=wt, timeout=600)
            failed = set(re.findall(r"FAILED \S+::(\w+)", out))
            m = re.search(r"(\d+) passed", out)
            if failed != BASELINE_FAIL or not m or int(m.group(1)) != 66:
                rec["status"] = "killed-by-unit-tests"; res.append(rec)
                with open(outpath, "a") as fp: fp.write(json.dumps(rec) + "\n")
                continue
            env = dict(os.environ, VERIF_REPO=wt, VERIF_JOBS="6", VERIF_SCRATCH_OUT="/tmp/lsfverif-scratch-out-%d" % wid)
            killed = []
            for c in checks:
                rc, out = run(["/verif/vf", "check", c], cwd="/verif", env=env, timeout=900)
                if rc == 1 and "VIOLATION" in out:
                    killed.append(c)
                    break
                if rc not in (0, 1):
                    killed.append(c + ":harness-error" if rc != 124 else c + ":timeout")
                    break
            rec["status"] = "killed" if killed else "SURVIVED"
            rec["by"] = killed
            res.append(rec)
            with open(outpath, "a") as fp: fp.write(json.dumps(rec) + "\n")
    finally:
        run(["git", "-C", REPO, "worktree", "remove", "--force", wt])
    return res

def main(argv):
    outpath = argv[1]
    specs = [a for a in argv[2:] if not a.startswith("--") and ":" in a]
    checks = "C02,C03,C06,C05,C09,C11,C15".split(",")
    njobs = 4
    limit = None
    for i, a in enumerate(argv):
        if a == "--checks": checks = argv[i + 1].split(",")
        if a == "--jobs": njobs = int(argv[i + 1])
        if a == "--limit": limit = int(argv[i + 1])
    jobs = []
    for sp in specs:
        fname, stride, off = sp.split(":")
        cs = candidates(os.path.join(REPO, SRC, fname))
        pick = cs[int(off)::int(stride)]
        jobs += [(fname, s) for s in pick]
        print("%s: %d sites, %d picked" % (fname, len(cs), len(pick)))
    if limit:
        jobs = jobs[:limit]
    chunks = [(w, jobs[w::njobs], checks, outpath) for w in range(njobs)]
    with multiprocessing.get_context("fork").Pool(njobs) as pool:
        outs = pool.map(worker, chunks)
    allr = [r for o in outs for r in o]
    from collections import Counter
    print(Counter(r["status"] for r in allr))

if __name__ == "__main__":
    main(sys.argv)
