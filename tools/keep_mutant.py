#!/venv/bin/python
"""keep_mutant.py <worktree> <n> <seed id> <property> <needs> <caught_by comma list> [<missed_by, "|"-separated>]"""
import sys, os, json, shutil, subprocess
wt, n, sid, prop, needs, caught = sys.argv[1:7]
missed = sys.argv[7] if len(sys.argv) > 7 else ""
d = os.path.join("/verif/seeded", sid)
os.makedirs(d, exist_ok=True)
shutil.copy(os.path.join(wt, "mutant%s.diff" % n), os.path.join(d, "patch.diff"))
shutil.copy(os.path.join(wt, "demo%s.py" % n), os.path.join(d, "demo.py"))
head = subprocess.check_output(["git", "-C", "/repo", "log", "--format=%h", "-1"]).decode().strip()
meta = {"id": sid, "property": prop, "needs": needs, "base_commit": head,
        "verified": {"existing_tests": "3 failed, 66 passed (same three baseline failures) with the patch applied",
                     "demo": "demo.py exits 1 (FAIL) with the patch and 0 (PASS) without, run from a scratch worktree",
                     "how": "tools/try_mutant.sh <scratch worktree> patch.diff demo.py <checks> (VERIF_REPO pointed at the patched worktree)"},
        "caught_by": [c for c in caught.split(",") if c], "missed_by_at_first": [c for c in missed.split("|") if c],
        "author": "independent sub-agent given only the property record and a scratch worktree"}
json.dump(meta, open(os.path.join(d, "meta.json"), "w"), indent=1)
print("kept", sid)
