#!/bin/bash
# usage: try_mutant.sh <worktree> <diff> <demo> <check ids...>   (runs quick checks against the patched worktree)
WT=$1; DIFF=$2; DEMO=$3; shift 3
cd $WT || exit 2
git checkout -q --detach main 2>/dev/null; git clean -fdq -e "mutant*.diff" -e "demo*.py" -e ".*.out"
git checkout -q -- . 
if [ -n "$DEMO" ] && [ -f "$DEMO" ]; then echo "demo clean: $(/venv/bin/python $DEMO 2>&1 | tail -1 | cut -c1-100) (exit $?)"; fi
git apply $DIFF || { echo "PATCH DOES NOT APPLY"; exit 2; }
echo "tests: $(/venv/bin/python -m pytest -q -p no:cacheprovider --timeout=900 --continue-on-collection-errors 2>&1 | tail -1)"
if [ -n "$DEMO" ] && [ -f "$DEMO" ]; then /venv/bin/python $DEMO > $WT/.demo.out 2>&1; echo "demo patched: exit $? $(tail -1 $WT/.demo.out | cut -c1-100)"; fi
cd /verif
for c in "$@"; do
  VERIF_REPO=$WT ./vf check $c > $WT/.mut.out 2>&1; rc=$?
  echo "  $c exit=$rc $(grep -c '^VIOLATION' $WT/.mut.out) violations; $(grep -m2 'signature' $WT/.mut.out | cut -c1-160 | tr '\n' ';')"
done
cd $WT && git checkout -q -- .
