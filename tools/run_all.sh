#!/bin/bash
# usage: run_all.sh [quick|thorough] [seed]   -- run every registered check sequentially, one summary line each
TIER=${1:-quick}; SEED=${2:-0}
cd /verif
rc_all=0
for i in 01 02 03 04 05 06 07 08 09 10 11 12 13 14 15 16 17 18 19 20; do
  s=$(date +%s)
  VERIF_SEED=$SEED ./vf check C$i --tier $TIER > /tmp/runall.$i.out 2>&1; rc=$?
  e=$(date +%s)
  echo "C$i rc=$rc $((e-s))s viol=$(grep -c '^VIOLATION' /tmp/runall.$i.out) known=$(grep -c '^KNOWN-FINDING' /tmp/runall.$i.out) | $(tail -1 /tmp/runall.$i.out | cut -c1-140)"
  [ $rc -ne 0 ] && rc_all=1
done
exit $rc_all
