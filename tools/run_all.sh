#!/bin/bash
# usage: run_all.sh [quick|thorough] [seed] [ids...]  -- run every registered check sequentially, one summary line each
# (runs from the directory that holds this copy of the tools, so that it also works in a `vp run` snapshot)
TIER=${1:-quick}; SEED=${2:-0}; shift 2 2>/dev/null
IDS=${@:-01 02 03 04 05 06 07 08 09 10 11 12 13 14 15 16 17 18 19 20}
cd "$(dirname "$0")/.." || exit 2
OUT=$(mktemp -d /tmp/runall.XXXXXX)
rc_all=0
for i in $IDS; do
  s=$(date +%s)
  VERIF_SEED=$SEED ./vf check C$i --tier $TIER > $OUT/$i.out 2>&1; rc=$?
  e=$(date +%s)
  echo "C$i rc=$rc $((e-s))s viol=$(grep -c '^VIOLATION' $OUT/$i.out) known=$(grep -c '^KNOWN-FINDING' $OUT/$i.out) | $(tail -1 $OUT/$i.out | cut -c1-140)"
  [ $rc -ne 0 ] && { rc_all=1; grep -A2 '^VIOLATION\|HARNESS-ERROR' $OUT/$i.out | head -20; }
done
rm -rf $OUT
exit $rc_all
