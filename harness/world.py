"""
The World: the real StateEngine / TaskDispatcher / EventDispatcher / amqp_0_9_1_messaging_asyncio wired onto the
simulated pika broker, a virtual clock and a deterministic id source (DESIGN.md 3.4).  One World object is one
execution of the explorer; it is rebuilt from scratch for every replay.
"""
import os, sys, json, math, atexit, shutil, tempfile, asyncio, datetime as _dt, uuid as _uuid, time as _time, types

VERIF = os.path.dirname(os.path.dirname(os.path.abspath(__file__)))
REPO = os.environ.get("VERIF_REPO", "/repo")
os.environ.setdefault("LOG_LEVEL", "CRITICAL")
os.environ.setdefault("TZ", "UTC")
_time.tzset()
for p in (os.path.join(REPO, "asl-workflow-engine", "py"), os.path.join(VERIF, "sim")):
    if p not in sys.path:
        sys.path.insert(0, p)

import logging
logging.disable(logging.CRITICAL)

import pika  # the simulated one
from pika import _core as simcore
from pika._core import Broker, BasicProperties, CrashNow
from pika.adapters.asyncio_connection import AsyncioConnection

EPOCH = 1900000000.0   # 2030-03-17T17:46:40Z
INF = float("inf")

# ------------------------------------------------------------------------------------------------------
class Clock(object):
    def __init__(self):
        self.now = EPOCH

class _Cur(object):
    world = None
    clock = Clock()
    uuid_counter = 0

class TimeShim(object):
    """Replaces the `time` module inside the engine modules."""
    @staticmethod
    def time():
        return _Cur.clock.now
    @staticmethod
    def sleep(s):
        pass
    monotonic = time
    def __getattr__(self, name):
        return getattr(_time, name)

class VDateTime(_dt.datetime):
    @classmethod
    def now(cls, tz=None):
        return cls.fromtimestamp(_Cur.clock.now, tz)
    @classmethod
    def utcnow(cls):
        return cls.utcfromtimestamp(_Cur.clock.now)

class UuidShim(object):
    UUID = _uuid.UUID
    @staticmethod
    def uuid4():
        _Cur.uuid_counter += 1
        return _uuid.UUID(int=(0x4000 << 64) | (0x8000 << 48) | _Cur.uuid_counter)
    def __getattr__(self, name):
        return getattr(_uuid, name)

_installed = False
_loop = None
def install():
    """Import the engine from VERIF_REPO and put the seams in place (once per process)."""
    global _installed, _loop
    if _installed:
        return
    _loop = asyncio.new_event_loop()
    asyncio.set_event_loop(_loop)
    import asl_workflow_engine.state_engine as se
    import asl_workflow_engine.task_dispatcher as td
    import asl_workflow_engine.event_dispatcher as ed
    ts, us = TimeShim(), UuidShim()
    se.time = ts; se.datetime = VDateTime; se.uuid = us
    td.time = ts; td.datetime = VDateTime; td.uuid = us
    ed.uuid = us
    _installed = True

def install_api():
    import asl_workflow_engine.rest_api_asyncio as ra
    ts, us = TimeShim(), UuidShim()
    ra.time = ts; ra.datetime = VDateTime; ra.uuid = us
    return ra

def release_store_threads(engine):
    """A Redis-backed store parks a listener thread on its invalidation subscription.  When its process is gone (crash, end of
    a run) nothing is sent to anybody - the thread is simply released, and the store's destructor is left with nothing to do
    (it would otherwise run whenever the garbage collector gets to it, talking to whatever server exists then)."""
    if engine is None:
        return
    for v in list(vars(engine).values()):
        if hasattr(v, "tracker_id") and hasattr(v, "weakref_to_pubsub"):
            try:
                ps = v.weakref_to_pubsub()
                if ps is not None:
                    ps.close()
                t = getattr(v, "tracker_thread", None)
                if t is not None and t.is_alive():
                    t.join(1)
            except Exception:
                pass
            v.tracker_id = None
        elif hasattr(v, "tracker_id"):
            v.tracker_id = None

def _drain_loop():
    """The asyncio loop is shared by every World of a process (the REST front ends run on it): whatever a finished World left
    on it - a StartSyncExecution request still waiting for its answer, a callback scheduled by a front end - must not run
    inside the next World, where it would publish into the new broker the first time the loop turns."""
    if _loop is None or _loop.is_closed():
        return
    try:
        for _ in range(3):
            tasks = [t for t in asyncio.all_tasks(_loop) if not t.done()]
            for t in tasks:
                t.cancel()
            _loop.run_until_complete(asyncio.sleep(0))
            if not tasks:
                break
        _loop._ready.clear()
        for h in list(_loop._scheduled):
            h.cancel()
        _loop._scheduled.clear()
    except Exception:
        pass

_tmpdir = None
def tmpdir():
    global _tmpdir
    if _tmpdir is None:
        if os.environ.get("LSFVERIF_TMP") and os.path.isdir(os.environ["LSFVERIF_TMP"]):
            # one scratch directory per check run, made and removed by the entry point (pool workers leave through os._exit and
            # never run their own atexit handlers)
            _tmpdir = os.environ["LSFVERIF_TMP"]
            return _tmpdir
        base = "/dev/shm" if os.path.isdir("/dev/shm") else None
        _tmpdir = tempfile.mkdtemp(prefix="lsfverif-", dir=base)
        atexit.register(shutil.rmtree, _tmpdir, True)
    return _tmpdir

# ------------------------------------------------------------------------------------------------------
def sm_arn(name):
    return "arn:aws:states:local:0123456789:stateMachine:" + name

def exec_arn(machine, name):
    return "arn:aws:states:local:0123456789:execution:" + machine + ":" + name

def fn_arn(fname):
    return "arn:aws:rpcmessage:local::function:" + fname

TOPIC = '{"node": {"x-declare": {"exchange": "asl_workflow_engine", "exchange-type": "topic", "durable": true}}}'

def make_config(instance_id, store_url, queue_type="classic", execution_ttl=300, retention_ms=5000, overrides=None):
    cfg = {
        "event_queue": {
            "queue_name": "asl_workflow_events", "instance_id": instance_id,
            "queue_implementation": "AMQP-0.9.1-asyncio", "queue_type": queue_type,
            "connection_url": "amqp://localhost:5672?connection_attempts=1&retry_delay=0&heartbeat=0",
            "shared_event_consumer_capacity": 1000, "instance_event_consumer_capacity": 1000,
            "reply_to_consumer_capacity": 100, "orphaned_response_retention_ms": retention_ms,
        },
        "notifier": {"topic": TOPIC, "message_ttl": 0},
        "state_engine": {"store_url": store_url, "execution_ttl": execution_ttl},
        "rest_api": {"host": "127.0.0.1", "port": 4584, "region": "local", "validate_asl": False},
        "tracer": {"implementation": "None"}, "metrics": {"implementation": "None", "namespace": ""},
    }
    for k, v in (overrides or {}).items():
        cfg.setdefault(k, {}).update(v)
    return cfg

class Instance(object):
    def __init__(self, world, idx, config):
        self.world = world; self.idx = idx; self.config = config
        self.alive = False; self.engine = None; self.dispatcher = None; self.coro = None; self.conn = None
        self.generation = 0
        self.start_error = None

    def start(self):
        from asl_workflow_engine.state_engine import StateEngine
        from asl_workflow_engine.event_dispatcher import EventDispatcher
        b = self.world.broker
        nconn = len(b.connections)
        self.generation += 1
        try:
            self.engine = StateEngine(self.config)
            self.dispatcher = EventDispatcher(self.engine, self.config)
            if self.config["event_queue"]["queue_implementation"].endswith("-asyncio"):
                self.coro = self.dispatcher.start_asyncio()
                self.waiting = None
                self.boot_steps = 0
                if self.world.sc.get("slow_start") and (self.generation > 1 or self.world.sc.get("slow_start") == "always"):
                    # the broker's confirmations travel like any other frame while this instance starts up: start_asyncio is
                    # suspended at each of its awaits and resumed by the explorer ('call' events), so what is already waiting
                    # in a queue can be delivered between two start-up steps
                    b.defer_confirms_for_new_connections = True
                    try:
                        self.waiting = self.coro.send(None)
                    finally:
                        b.defer_confirms_for_new_connections = False
                else:
                    self.coro.send(None)
                self.alive = True
            else:
                # blocking transport: EventDispatcher.start() blocks in start_consuming(); it runs on its own thread which
                # parks inside the simulated connection while the harness calls the consumer / timer callbacks itself
                import threading
                self.parked = threading.Event()
                self.release = threading.Event()
                self.thread_error = []
                def hook(conn, inst=self):
                    inst.parked.set()
                    inst.release.wait()
                b.blocking_driver = hook
                def body(inst=self):
                    try:
                        inst.dispatcher.start()
                    except SystemExit as e:
                        inst.thread_error.append("SystemExit(%s)" % (e.code,))
                    except BaseException as e:
                        inst.thread_error.append(repr(e))
                    inst.parked.set()
                self.thread = threading.Thread(target=body, daemon=True)
                self.thread.start()
                self.parked.wait(10)
                if self.thread_error:
                    raise SystemExit(self.thread_error[0])
                self.alive = True
        except SystemExit as e:
            self.alive = False
            self.start_error = "SystemExit(%s)" % (e.code,)
        except StopIteration:
            self.alive = False
            self.start_error = "start_asyncio returned"
        if len(b.connections) > nconn:
            self.conn = b.connections[nconn]
            self.conn.name = "i%d" % self.idx
            self.conn.instance = self
            if not self.alive:
                b.drop_connection(self.conn)
        return self.alive

    def resume_boot(self):
        """Continue start_asyncio after the confirmation it was waiting for has been handled."""
        while self.alive and self.coro is not None and self.waiting is not None and self.waiting.done():
            self.boot_steps = getattr(self, "boot_steps", 0) + 1
            try:
                self.waiting = self.coro.send(None)
            except StopIteration:
                self.waiting = None
                self.alive = False
                self.start_error = "start_asyncio returned"
                break
            except SystemExit as e:
                self.waiting = None
                self.start_error = "SystemExit(%s)" % (e.code,)
                self.world.escaped.append((self.world.step_no, ("boot", self.idx), self.start_error))
                self.world.broker.log("process_exit", instance=self.idx, site=None)
                self.crash()
                break
        if self.conn is not None and self.waiting is not None and not self.conn.pending_calls and getattr(self.conn, "defer_confirms", False):
            # nothing left to confirm: start-up is over (start_asyncio now waits for the connection to close)
            self.conn.defer_confirms = False

    def crash(self):
        """The process dies: broker sees the connection drop; all volatile state is gone."""
        if self.conn is not None and self.conn.is_open:
            self.world.broker.drop_connection(self.conn)
        self.alive = False
        if self.coro is not None:
            try:
                self.coro.close()
            except BaseException:
                pass
        if getattr(self, "release", None) is not None:
            self.release.set()
        release_store_threads(self.engine)
        self.engine = None; self.dispatcher = None; self.coro = None

# ------------------------------------------------------------------------------------------------------
def strip_cause(x):
    """The payload with every "Cause" member removed (used only to count attempts per payload)."""
    if isinstance(x, dict):
        return {k: strip_cause(v) for k, v in x.items() if k != "Cause"}
    if isinstance(x, list):
        return [strip_cause(v) for v in x]
    return x

class Worker(object):
    """
    Scripted task worker for one function queue.  `spec` maps a request key to a list of outcomes by attempt
    (the last one repeats); key "*" is the default.  The key is the JSON text of the request payload, so the
    reply is a function of (payload, attempt) only - independent of arrival order.
    Outcomes: ["ok", value] | ["echo"] | ["err", type, message] | ["raw", text] | ["none"] | ["okstr", n]
    """
    def __init__(self, fname, spec):
        self.fname = fname
        self.spec = spec
        self.attempts = {}
        self.requests = []     # (step, correlation_id, payload text, time)
        self.held = []         # replies a slow worker has not sent yet

    def outcome(self, payload_text):
        try:
            obj = json.loads(payload_text)
            key = json.dumps(obj, sort_keys=True)
            akey = json.dumps(strip_cause(obj), sort_keys=True)
        except ValueError:
            key = akey = payload_text
        lst = self.spec.get(key)
        if lst is None:
            lst = self.spec.get("*", [["echo"]])
        # attempts are counted per payload *without* the free text of error causes: the engine writes the id of the event
        # that failed into "Cause", which depends on the schedule (and is not part of what the reference computes)
        n = self.attempts.get(akey, 0)
        self.attempts[akey] = n + 1
        return lst[min(n, len(lst) - 1)]

# ------------------------------------------------------------------------------------------------------
class World(object):
    KIND_RANK = {"deliver": 0, "return": 1, "call": 2, "boot": 2, "timer": 3, "worker": 4, "api": 5, "advance": 9}

    def __init__(self, scenario, monitors=()):
        install()
        _drain_loop()
        self.sc = scenario
        for k, v in (scenario.get("env") or {}).items():
            os.environ[k] = v          # (Task Resources may be given indirectly as "$NAME")
        self.shared_queue = "asl_workflow_events" + ("-qq" if scenario.get("queue_type") == "quorum" else "")
        _Cur.world = self
        _Cur.clock = self.clock = Clock()
        _Cur.uuid_counter = 0
        self.broker = Broker(self.clock)
        Broker.CURRENT = self.broker
        self.broker.record_sites = scenario.get("record_sites", True)
        self.step_no = 0
        self.trace = []              # labels of executed events
        self.notes = []              # notifications seen by the '#' subscriber: (step, routing_key, body, props)
        self.escaped = []            # exceptions that escaped a callback: (step, label, repr)
        self.monitors = list(monitors)
        self.schedule = scenario.get("schedule", "prompt")
        self.delay_budget = scenario.get("delay_budget", 0)
        self.horizon = scenario.get("horizon", 1000.0)
        self.backstop = scenario.get("backstop", False)
        self.api_pos = 0
        self.api_log = []
        self.last_api_step = 0
        self.started = []            # execution arns considered started (for liveness)
        self.env = AsyncioConnection(None)
        self.env.name = "env"
        self.env_ch = self.env.channel()
        for m in self.monitors:
            self.broker.observers.append(lambda op, m=m: m.on_op(self, op))
        # stores
        self.store_kind = scenario.get("store", "json")
        if self.store_kind == "json":
            World._seq = getattr(World, "_seq", 0) + 1
            self.store_url = os.path.join(tmpdir(), "store-%d-%d.json" % (os.getpid(), World._seq % 4))
            try:
                os.unlink(self.store_url)
            except OSError:
                pass
        else:
            import redis as simredis
            simredis.reset_server()
            from asl_workflow_engine.store import RedisStore
            if hasattr(RedisStore, "connection"):
                del RedisStore.connection
            self.store_url = "redis://localhost:6379"
        # engine instances
        self.instances = []
        n = scenario.get("instances", 1)
        ids = scenario.get("instance_ids") or ["i%d" % (k + 1) for k in range(n)]
        for k in range(n):
            cfg = make_config(ids[k], self.store_url, scenario.get("queue_type", "classic"),
                              scenario.get("execution_ttl", 300), scenario.get("retention_ms", 5000),
                              scenario.get("config"))
            if scenario.get("transport") == "blocking":
                cfg["event_queue"]["queue_implementation"] = "AMQP-0.9.1"
            inst = Instance(self, k + 1, cfg)
            self.instances.append(inst)
            inst.start()
        # notification subscriber
        if "asl_workflow_engine" not in self.broker.exchanges and scenario.get("slow_start") == "always":
            # (the instances are still starting up: the observer declares the notification exchange exactly as the engine will)
            self.env_ch.exchange_declare("asl_workflow_engine", exchange_type="topic", durable=True)
        if "asl_workflow_engine" in self.broker.exchanges:
            self.env_ch.queue_declare("verif.notes", exclusive=True, auto_delete=True)
            self.env_ch.queue_bind("verif.notes", "asl_workflow_engine", routing_key="#")
            self.broker.queues["verif.notes"].taps.append(self._on_note)
        # workers
        self.workers = {}
        for fname, spec in scenario.get("workers", {}).items():
            self.env_ch.queue_declare(fname, auto_delete=True)
            self.workers[fname] = Worker(fname, spec)
        # state machines straight into the store (the API path is exercised by C10/C16/C17)
        self.machines = {}
        eng = self.instances[0].engine if self.instances and self.instances[0].engine else None
        for name, m in scenario.get("machines", {}).items():
            arn = sm_arn(name)
            self.machines[name] = arn
            if eng is not None:
                rec = {
                    "creationDate": self.clock.now, "definition": m["definition"], "name": name,
                    "roleArn": "arn:aws:iam::0123456789:role/verif", "stateMachineArn": arn,
                    "updateDate": self.clock.now, "status": "ACTIVE", "type": m.get("type", "STANDARD"),
                }
                if "loggingConfiguration" in m:
                    rec["loggingConfiguration"] = m["loggingConfiguration"]
                eng.asl_store[arn] = rec
        self.setup_ops = len(self.broker.oplog)
        for m in self.monitors:
            m.on_setup(self)
        # scripted start events
        self.script = list(scenario.get("script", []))
        for s in scenario.get("starts", []):
            self.script.append(dict(s, op="start"))

    # -- notification tap ------------------------------------------------------------------------------
    def _on_note(self, qmsg):
        try:
            body = json.loads(qmsg.body.decode("utf8"))
        except ValueError:
            body = None
        ent = {"step": self.step_no, "key": qmsg.routing_key, "body": body, "time": self.clock.now,
               "expiration": qmsg.props.expiration, "headers": qmsg.props.headers}
        self.notes.append(ent)
        for m in self.monitors:
            m.on_note(self, ent)

    # -- helpers ---------------------------------------------------------------------------------------
    def live_instances(self):
        return [i for i in self.instances if i.alive]

    def timers(self, conn):
        return [t for t in conn.timers if t.live]

    @staticmethod
    def is_heartbeat(t):
        return simcore.timer_kind(t.callback).endswith("EventDispatcher.heartbeat")

    def _precedes(self, a, b):
        """Timer a must fire before timer b (same connection, both due)."""
        if a.deadline != b.deadline:
            return a.deadline < b.deadline
        if a.due_step is not None and a.due_step < b.arm_step:
            return True
        return a.delay == b.delay and a.seq < b.seq

    # -- enabled events --------------------------------------------------------------------------------
    def enabled(self):
        b = self.broker
        now = self.clock.now
        evs = []
        any_due = False
        any_live_real_timer = False
        for inst in self.live_instances():
            conn = inst.conn
            live = self.timers(conn)
            due = [t for t in live if t.deadline <= now]
            for t in due:
                if t.due_step is None:
                    t.due_step = self.step_no
            barrier = min([t.due_step for t in due], default=INF)
            if due:
                any_due = True
            for t in live:
                if not self.is_heartbeat(t):
                    any_live_real_timer = True
            for qname in sorted(b.queues):
                q = b.queues[qname]
                if not q.messages:
                    continue
                head = q.messages[0]
                if head.enq_step >= barrier:
                    continue
                for c in b.deliverable(qname):
                    if c.channel.connection is conn:
                        evs.append((head.enq_step, 0, ("deliver", qname, conn.name)))
            for ch in conn.channels:
                if ch.is_open and ch.pending_returns and ch.pending_returns[0][3] < barrier:
                    evs.append((ch.pending_returns[0][3], 1, ("return", conn.name, ch.channel_number)))
            booting = getattr(inst, "waiting", None) is not None and inst.waiting.done()
            if booting:
                # start_asyncio can be resumed: like a 0 ms timer it competes with whatever arrived together with the confirmation
                evs.append((self.step_no, 2, ("boot", conn.name)))
            if conn.pending_calls and conn.pending_calls[0][1] < barrier and not booting:
                evs.append((conn.pending_calls[0][1], 2, ("call", conn.name)))
            for t in due:
                if not any(o is not t and self._precedes(o, t) for o in due):
                    evs.append((t.due_step, 3, ("timer", conn.name, t.seq)))
        for fname in sorted(self.workers):
            q = b.queues.get(fname)
            if q and q.messages:
                evs.append((q.messages[0].enq_step, 4, ("worker", fname)))
            if self.workers[fname].held:
                evs.append((self.workers[fname].held[0][4], 4, ("wreply", fname)))
        busy = bool(evs)
        if self.api_pos < len(self.script):
            call = self.script[self.api_pos]
            need = call.get("needs_request")
            if need and not (need in self.workers and self.workers[need].requests):
                pass
            elif call.get("op") in ("start", "raw") and call.get("queue", self.shared_queue) not in b.queues:
                pass      # (a client cannot put a start event on a queue that no instance has declared yet)
            elif not (call.get("after_idle") and busy):
                if not (call.get("after_quiet") and (busy or any_live_real_timer)):
                    evs.append((self.last_api_step, 5, ("api", self.api_pos)))
        evs.sort(key=lambda e: (e[0], e[1], e[2]))
        out = [e[2] for e in evs]
        if not any_due:
            has_timer = any(self.timers(i.conn) for i in self.live_instances())
            wants = any_live_real_timer or (self.backstop_needed() and has_timer)
            if wants and self.clock.now - EPOCH < self.horizon:
                if not out:
                    out.append(("advance",))
                elif self.schedule == "timed" and self.delay_budget > 0:
                    out.append(("advance",))
        return out

    def backstop_needed(self):
        for inst in self.live_instances():
            if inst.engine.branch_metadata:
                return True
        return False

    # -- executing one event ---------------------------------------------------------------------------
    def step(self, label):
        b = self.broker
        self.step_no += 1
        b.step = self.step_no
        b.ops_in_step = 0
        if getattr(self, "armed", None) is not None:
            self.trace.append(self.armed)
            self.armed = None
            b.ops_in_step = 0
        self.trace.append(label)
        kind = label[0]
        running = None
        self.cur_kind = kind
        if kind == "deliver":
            q = label[1]
            self.cur_kind = "deliver:" + ("reply" if q.startswith("asl_workflow_reply_to") else "instance" if q.startswith("asl_workflow_events-") else "shared" if q.startswith("asl_workflow_events") else q)
        elif kind == "timer":
            for c in b.connections:
                if c.name == label[1]:
                    for t in c.timers:
                        if t.seq == label[2]:
                            self.cur_kind = "timer:" + simcore.timer_kind(t.callback).split(".<locals>.")[-1]
        try:
            if kind == "deliver":
                conn = self._conn(label[2])
                running = conn.instance
                cs = [c for c in b.deliverable(label[1]) if c.channel.connection is conn]
                fn = b.take(label[1], cs[0])
                fn()
            elif kind == "return":
                conn = self._conn(label[1])
                running = conn.instance
                ch = conn.channels[label[2] - 1]
                method, props, body, _ = ch.pending_returns.pop(0)
                b.log("return_delivered", routing_key=method.routing_key, correlation_id=props.correlation_id,
                      connection=conn.name, site=None)
                for cb in list(ch._on_return):
                    cb(ch, method, props.copy(), body)
            elif kind == "call":
                conn = self._conn(label[1])
                running = conn.instance
                cb, _ = conn.pending_calls.pop(0)
                cb()
                # (the confirmation has resolved the future start_asyncio is awaiting; the coroutine itself is resumed by the loop in a
                # later iteration - a separate 'boot' event - so frames that arrived together with the confirmation are handled first or after)
            elif kind == "boot":
                conn = self._conn(label[1])
                running = conn.instance
                running.resume_boot()
            elif kind == "timer":
                conn = self._conn(label[1])
                running = conn.instance
                t = [t for t in conn.timers if t.seq == label[2]][0]
                t.fired = True
                conn.timers.remove(t)
                b.log("timer_fired", timer=t.seq, kind=simcore.timer_kind(t.callback), connection=conn.name,
                      deadline=t.deadline, site=None, callback=t.callback, now=self.clock.now, delay=t.delay)
                t.callback()
            elif kind == "worker":
                self._worker_step(label[1])
            elif kind == "wreply":
                rt, cid, text, out, _ = self.workers[label[1]].held.pop(0)
                self._worker_reply(rt, cid, text, out)
            elif kind == "api":
                call = self.script[self.api_pos]
                self.api_pos += 1
                self.last_api_step = self.step_no
                self._api(call)
            elif kind == "advance":
                if self.schedule == "timed" and len(self.enabled_cache or ()) > 1:
                    self.delay_budget -= 1
                self._advance()
            elif kind == "crash":
                inst = self.instances[label[1] - 1]
                b.log("crash", instance=inst.idx, site=None)
                inflight = len(label) > 2 and label[2] == "inflight"
                consumed = [qn for qn, q in b.queues.items() if any(c.channel.connection is inst.conn for c in q.consumers)]
                inst.crash()
                if inflight:
                    # the broker had already written the head message of each consumed queue to the dead connection
                    for qn in consumed:
                        q = b.queues.get(qn)
                        if q and q.messages:
                            q.messages[0].redelivered = True
            elif kind == "sleep":
                # downtime: nothing runs while the clock moves on
                self.clock.now += label[1]
                b.expire()
                b.log("sleep", seconds=label[1], site=None)
            elif kind == "arm_crash":
                # the process will die right after the k-th broker operation of the next step
                b.crash_after_ops = label[1]
                self.step_no -= 1
                self.trace.pop()
                self.armed = label
                return
            elif kind == "restart":
                inst = self.instances[label[1] - 1]
                b.log("restart", instance=inst.idx, site=None)
                inst.start()
            else:
                raise ValueError("unknown event %r" % (label,))
        except CrashNow:
            inst = running
            b.crash_after_ops = None
            b.log("crash", instance=inst.idx if inst else None, site=None, mid_step=True)
            if inst:
                inst.crash()
        except SystemExit as e:
            self.escaped.append((self.step_no, label, "SystemExit(%r)" % (e.code,)))
            b.log("process_exit", instance=running.idx if running else None, site=None)
            if running:
                running.crash()
        except Exception as e:
            if os.environ.get("VERIF_TB"):
                import traceback; traceback.print_exc()
            self.escaped.append((self.step_no, label, "%s: %s" % (type(e).__name__, e)))
            b.log("escaped_exception", error="%s: %s" % (type(e).__name__, e), site=None)
        b.crash_after_ops = None
        self._fold_due_heartbeats()
        for m in self.monitors:
            m.after_step(self, label)

    enabled_cache = None
    cur_kind = None

    def _fold_due_heartbeats(self):
        """No-op heart-beats (count not a multiple of 60) that are already due fire silently: they are deterministic,
        touch nothing but their own counter, and leaving them as explicit events would only add stuttering steps."""
        b = self.broker
        for inst in self.live_instances():
            while True:
                hb = [t for t in self.timers(inst.conn) if self.is_heartbeat(t) and t.deadline <= self.clock.now]
                if not hb:
                    break
                t = min(hb, key=lambda t: (t.deadline, t.seq))
                ed = t.callback.__self__
                if (ed.heartbeat_count + 1) % 60 == 0 and ed.state_engine.branch_metadata:
                    break
                t.fired = True
                t.connection.timers.remove(t)
                n = len(b.oplog)
                t.callback()
                del b.oplog[n:]

    def _conn(self, name):
        for c in self.broker.connections:
            if c.name == name and c.is_open:
                return c
        raise KeyError(name)

    def _advance(self):
        """Move the clock to the next deadline at which something other than a no-op heart-beat happens."""
        b = self.broker
        while True:
            nxt = None
            for inst in self.live_instances():
                for t in self.timers(inst.conn):
                    if nxt is None or (t.deadline, t.seq) < (nxt.deadline, nxt.seq):
                        nxt = t
            if nxt is None:
                return
            if nxt.deadline > self.clock.now:
                self.clock.now = nxt.deadline
                b.expire()
            if self.is_heartbeat(nxt):
                ed = nxt.callback.__self__
                if (ed.heartbeat_count + 1) % 60 != 0 or not ed.state_engine.branch_metadata:
                    # deterministic no-op beat: fold it
                    nxt.fired = True
                    nxt.connection.timers.remove(nxt)
                    rs = b.record_sites
                    n = len(b.oplog)
                    nxt.callback()
                    del b.oplog[n:]          # folded beats leave no trace in the op log
                    continue
            b.log("advance", to=self.clock.now - EPOCH, site=None)
            return

    # -- environment -----------------------------------------------------------------------------------
    def _worker_step(self, fname):
        b = self.broker
        q = b.queues[fname]
        m = q.messages.pop(0)
        w = self.workers[fname]
        text = m.body.decode("utf8")
        w.requests.append((self.step_no, m.props.correlation_id, text, self.clock.now))
        b.log("worker_take", queue=fname, correlation_id=m.props.correlation_id, reply_to=m.props.reply_to,
              body=m.body, site=None, time=self.clock.now, expiration=m.props.expiration,
              headers=m.props.headers, message_id=m.props.message_id)
        out = w.outcome(text)
        kind = out[0]
        if kind == "none":
            return
        if kind == "delay":
            w.held.append((m.props.reply_to, m.props.correlation_id, text, out[1], self.step_no))
            return
        self._worker_reply(m.props.reply_to, m.props.correlation_id, text, out)

    def _worker_reply(self, reply_to, correlation_id, text, out):
        kind = out[0]
        if kind == "ok":
            body = json.dumps(out[1])
        elif kind == "echo":
            body = text
        elif kind == "err":
            body = json.dumps({"errorType": out[1], "errorMessage": out[2] if len(out) > 2 else ""})
        elif kind == "raw":
            body = out[1]
        elif kind == "okstr":
            body = '"' + "x" * (out[1] - 2) + '"'
        else:
            raise ValueError(out)
        self.env_ch.basic_publish("", reply_to, body,
                                  BasicProperties(correlation_id=correlation_id, content_type="application/json"))

    def start_event(self, machine, input, name=None, context_extra=None, definition=None):
        ctx = {"StateMachine": {"Id": sm_arn(machine)}}
        if name is not None:
            ctx["Execution"] = {"Name": name}
        if definition is not None:
            ctx["StateMachine"]["Definition"] = definition
        if context_extra:
            for k, v in context_extra.items():
                ctx.setdefault(k, {}).update(v) if isinstance(v, dict) else ctx.__setitem__(k, v)
        return {"data": input, "context": ctx}

    def _api(self, call):
        op = call["op"]
        if op == "start":
            # a raw start event on the shared queue, shaped like the one StartExecution publishes
            machine = call["machine"]; name = call.get("name")
            arn = exec_arn(machine, name)
            if self.sc.get("start_via_api"):
                # the real StartExecution of instance 1's REST front end
                from .api import ApiClient
                if getattr(self, "_apic", None) is None:
                    self._apic = ApiClient(self, 1)
                st, js, text = self._apic.call("StartExecution", {"stateMachineArn": sm_arn(machine), "name": name, "input": json.dumps(call.get("input", {}))})
                if st != 200 or (js or {}).get("executionArn") != arn:
                    raise RuntimeError("StartExecution failed: %s %s" % (st, text))
                self.started.append(arn)
                return
            iso = VDateTime.now(_dt.timezone.utc).astimezone().isoformat()
            ev = {"data": call.get("input", {}), "context": {
                "Tracer": {},
                "Execution": {"Id": arn, "Input": call.get("input", {}), "Name": name,
                              "RoleArn": "arn:aws:iam::0123456789:role/verif", "StartTime": iso},
                "State": {"EnteredTime": iso, "Name": ""},
                "StateMachine": {"Id": sm_arn(machine), "Name": machine}}}
            self.started.append(arn)
            self.publish_event(ev, call.get("queue", self.shared_queue))
        elif op == "raw":
            body = bytes.fromhex(call["body_hex"]) if "body_hex" in call else call["body"]      # (body_hex: bytes that are not UTF-8)
            self.publish_raw(body, call.get("queue", self.shared_queue), call.get("message_id"))
            if call.get("arn"):
                self.started.append(call["arn"])
        elif op == "crash_restart":
            # a scripted crash of an instance followed at once by its restart (the explorer places it anywhere its guards allow)
            inst = self.instances[call.get("instance", 1) - 1]
            self.broker.log("crash", instance=inst.idx, site=None)
            inst.crash()
            self.broker.log("restart", instance=inst.idx, site=None)
            inst.start()
            self._apic = None
        elif op == "call":
            call["fn"](self)
        elif op == "api":
            # a scripted REST call; a task token can be taken from what a worker received
            from .api import ApiClient
            if getattr(self, "_apic", None) is None:
                self._apic = ApiClient(self, 1)
            params = json.loads(json.dumps(call.get("params") or {}))
            tf = call.get("token_from")
            if tf:
                payload = json.loads(self.workers[tf].requests[0][2])
                tok = payload.get("token") if isinstance(payload, dict) else None
                if call.get("mangle") == "truncate":
                    tok = tok[: len(tok) // 2]
                elif call.get("mangle") == "forge":
                    import base64
                    raw = base64.b64decode(tok).decode()
                    cid, rt = raw.split(":")
                    forged = "00000000-0000-4000-8000-00000000ffff.waitForTaskToken:" + rt
                    tok = base64.b64encode(forged.encode()).decode()
                elif call.get("mangle") == "notbase64":
                    tok = "%%%not-base64%%%"
                elif call.get("mangle") in ("nosuffix", "nocolon", "binary", "suffix-only"):
                    import base64
                    raw = base64.b64decode(tok).decode()
                    cid, rt = raw.split(":")
                    text = {"nosuffix": (cid[: -len(".waitForTaskToken")] + ":" + rt).encode(), "nocolon": cid.encode(), "binary": b"\xff\xfe\x80" + raw.encode(),
                            "suffix-only": b".waitForTaskToken"}[call["mangle"]]
                    tok = base64.b64encode(text).decode()
                elif call.get("mangle") == "empty":
                    tok = ""
                elif call.get("mangle") == "int":
                    tok = 5
                elif call.get("mangle") == "list":
                    tok = [tok]
                params["taskToken"] = tok
                if call.get("mangle") == "missing":
                    del params["taskToken"]
            st, js, text = self._apic.call(call["action"], params)
            self.api_log.append({"step": self.step_no, "action": call["action"], "status": st, "type": (js or {}).get("__type") if isinstance(js, dict) else None,
                                 "mangle": call.get("mangle"), "tag": call.get("tag"), "params": params, "body": js if call.get("keep_body") else None})
            self.broker.log("api_call", action=call["action"], status=st, site=None)
        else:
            raise ValueError(op)

    def publish_event(self, ev, queue="asl_workflow_events"):
        self.publish_raw(json.dumps(ev), queue)

    def publish_raw(self, body, queue="asl_workflow_events", message_id=None):
        mid = message_id or str(UuidShim.uuid4())
        self.env_ch.basic_publish("", queue, body, BasicProperties(
            message_id=mid, content_type="application/json", delivery_mode=2,
            headers={"x-amqp-0-9-1.subject": queue}))

    # -- observation helpers ---------------------------------------------------------------------------
    def engines(self):
        return [i.engine for i in self.live_instances()]

    def executions(self):
        """arn -> record (dict copy) through the first live instance."""
        for e in self.engines():
            return {k: dict(v) for k, v in e.executions.items()}
        return {}

    def history(self, arn):
        for e in self.engines():
            h = e.execution_history.get(arn)
            return list(h) if h is not None else None
        return None

    def run(self, choose=None, max_steps=5000, runaway=None):
        """Run to quiescence taking choose(enabled) (default: first = canonical schedule).  With runaway=k the run stops
        (self.runaway = True) when more than k steps pass without a scripted start/API event being taken: a batch of
        sequentially started executions must not hang on one that never ends."""
        n = 0
        since = 0
        self.runaway = False
        while n < max_steps:
            en = self.enabled()
            self.enabled_cache = en
            if not en:
                break
            ev = en[0] if choose is None else choose(en)
            since = 0 if ev[0] == "api" else since + 1
            if runaway is not None and since > runaway:
                self.runaway = True
                break
            self.step(ev)
            n += 1
        return n

    def close(self):
        for inst in self.instances:
            if getattr(inst, "release", None) is not None:
                inst.release.set()
                if getattr(inst, "thread", None) is not None:
                    inst.thread.join(2)
            if inst.coro is not None:
                try:
                    inst.coro.close()
                except BaseException:
                    pass
                inst.coro = None
            if getattr(inst, "engine", None) is not None:
                release_store_threads(inst.engine)
        _drain_loop()
        Broker.CURRENT = None
