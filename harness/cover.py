"""Development aid (not part of any registered check): with VERIF_COVER=<dir> set, every process of a check run records
which source lines of the engine it executed (sys.monitoring, each line reported once per process) into <dir>/<pid>.txt.
tools/cover_report.py turns the union into the list of engine lines no scenario of the suite reaches - the places a change
could be made that no corpus would notice."""
import os, sys

def install():
    out = os.environ.get("VERIF_COVER")
    if not out or not hasattr(sys, "monitoring"):
        return
    os.makedirs(out, exist_ok=True)
    mon = sys.monitoring
    TOOL = 3
    try:
        mon.use_tool_id(TOOL, "verif-cover")
    except ValueError:
        return
    state = {"pid": None, "f": None}
    def fh():
        if state["pid"] != os.getpid():
            state["pid"] = os.getpid()
            state["f"] = open(os.path.join(out, "%d.txt" % os.getpid()), "a", buffering=1)
        return state["f"]
    def on_line(code, line):
        fn = code.co_filename
        if "asl_workflow_engine" in fn or "statelint" in fn or "j2119" in fn:
            fh().write("%s:%d\n" % (fn, line))
        return mon.DISABLE
    mon.register_callback(TOOL, mon.events.LINE, on_line)
    mon.set_events(TOOL, mon.events.LINE)

install()
