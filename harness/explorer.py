"""
Stateless depth-first explorer with replay, state-fingerprint de-duplication and an optional deviation bound
(DESIGN.md 4.1).  Every transition is a call into the implementation; there is no separate model.
"""
import time, json
from .world import World
from .fingerprint import fingerprint

SOFT_KINDS = ("timer_at_idle", "state_retained_at_idle")

class HarnessError(Exception):
    pass

class Result(object):
    def __init__(self):
        self.states = 0; self.transitions = 0; self.executions = 0; self.max_depth = 0
        self.replays = 0; self.replayed_steps = 0
        self.violations = []      # (Violation, path(list of labels), choices)
        self.outcomes = {}        # outcome key -> count
        self.caps = []
        self.bound = None
        self.sample_paths = []
        self.wall = 0.0
    def merge(self, o):
        self.states += o.states; self.transitions += o.transitions; self.executions += o.executions
        self.max_depth = max(self.max_depth, o.max_depth); self.replays += o.replays
        self.replayed_steps += o.replayed_steps
        self.violations.extend(o.violations)
        for k, v in o.outcomes.items():
            self.outcomes[k] = self.outcomes.get(k, 0) + v
        self.caps.extend(o.caps)
        self.wall += o.wall

def default_outcome(w):
    """What an observer sees at the end: per execution the status sequence and the final output/error."""
    out = []
    per = {}
    for n in w.notes:
        d = (n["body"] or {}).get("detail") or {}
        per.setdefault(d.get("executionArn"), []).append([d.get("status"), d.get("output"), d.get("error")])
    for arn in sorted(per):
        out.append([arn, per[arn]])
    return json.dumps(out, sort_keys=True)

EFFORT_AFTER_VIOLATION = 400000     # executed steps (new + replayed) per scenario

def explore(scenario, monitor_factory, bound=None, max_states=200000, max_depth=400, wall=None,
            outcome=default_outcome, stop_on_first=False, on_complete=None, prefix=None, preamble=None, only=None, listed=None):
    """
    bound=None: closed exploration (all interleavings).  bound=k: at most k deviations from the canonical schedule.
    monitor_factory() -> list of fresh monitors.  Returns Result.
    """
    res = Result()
    res.bound = bound
    t0 = time.time()
    visited = {}
    stack = [(tuple(prefix or ()), 0)]
    seen_viol = set()
    while stack:
        choices, cost = stack.pop()
        if wall is not None and time.time() - t0 > wall:
            res.caps.append("wall")
            break
        if res.states >= max_states:
            res.caps.append("states")
            break
        if res.transitions + res.replayed_steps > EFFORT_AFTER_VIOLATION and any(not (listed and listed(v)) for v, _t, _p in res.violations):
            # a scenario that has already produced a counter-example (other than a recorded known finding) is not explored to the bitter end once it turns out to be
            # huge (a defect that multiplies events multiplies states): reported as a cap, the counter-examples found stand
            res.caps.append("effort-after-violation")
            break
        mons = monitor_factory()
        w = World(scenario, mons)
        path = []
        reported = 0
        try:
            for lab in (preamble or ()):
                lab = tuple(lab)
                if lab[0] not in ("crash", "restart", "arm_crash", "sleep", "advance"):
                    en = w.enabled()
                    w.enabled_cache = en
                    if lab not in en:
                        raise HarnessError("preamble diverged: %r not enabled in %r (%s)" % (lab, en, scenario.get("name")))
                w.step(lab)
            # replay the prefix
            for k, c in enumerate(choices):
                en = w.enabled()
                w.enabled_cache = en
                if c >= len(en):
                    raise HarnessError("replay diverged at depth %d: choice %d of %d (%s); choices %r; trace %r; enabled %r" % (
                        k, c, len(en), scenario.get("name"), list(choices), w.trace, en))
                w.step(en[c])
                path.append(c)
            if choices:
                res.replays += 1
                res.replayed_steps += len(choices)
            if only is not None:
                mons_all = mons
                mons = [m for m in mons if m.name in only]
            else:
                mons_all = mons
            fresh = len(choices)   # states before this index were already handled
            while True:
                # violations raised by the last step
                cur = [v for m in mons for v in m.violations]
                if len(cur) > reported:
                    new = cur[reported:]
                    reported = len(cur)
                    if len(path) >= fresh:
                        for v in new:
                            _record(res, seen_viol, v, w, path)
                        if stop_on_first:
                            res.wall = time.time() - t0
                            return res
                        if any(v.kind not in SOFT_KINDS for v in new):
                            break   # a violating state is not expanded further
                        # purely observational findings (something still held at an idle point) do not end the path:
                        # what the leftover does when it finally runs must be explored too
                fp = fingerprint(w)
                if len(path) >= fresh or not choices:
                    old = visited.get(fp)
                    if old is not None and old <= cost:
                        break
                    if old is None:
                        res.states += 1
                    visited[fp] = cost
                en = w.enabled()
                w.enabled_cache = en
                if not en:
                    for m in mons_all:
                        m.at_quiescence(w)
                    cur = [v for m in mons for v in m.violations]
                    for v in cur[reported:]:
                        _record(res, seen_viol, v, w, path)
                    reported = len(cur)
                    res.executions += 1
                    k = outcome(w) if outcome else ""
                    res.outcomes[k] = res.outcomes.get(k, 0) + 1
                    if on_complete:
                        on_complete(w, path, res)
                    if len(res.sample_paths) < 3:
                        res.sample_paths.append([list(map(_lab, w.trace))])
                    break
                if len(path) >= max_depth:
                    res.caps.append("depth")
                    break
                for i in range(len(en) - 1, 0, -1):
                    if bound is None or cost + 1 <= bound:
                        stack.append((tuple(path) + (i,), cost + 1))
                w.step(en[0])
                path.append(0)
                res.transitions += 1
                res.max_depth = max(res.max_depth, len(path))
        finally:
            w.close()
    res.transitions += res.replays   # the deviating step of each replayed prefix is a new transition
    res.wall = time.time() - t0
    return res

def _lab(l):
    return list(l)

def _record(res, seen, v, w, path):
    key = (v.monitor, v.kind, v.arn, v.detail)
    res.violations.append((v, [list(l) for l in w.trace], list(path)))

def run_choices(scenario, monitor_factory, choices, quiesce=True):
    """Replay one choice list (indices into enabled()) and return (world, monitors)."""
    mons = monitor_factory()
    w = World(scenario, mons)
    for k, c in enumerate(choices):
        en = w.enabled()
        w.enabled_cache = en
        if c >= len(en):
            raise HarnessError("replay diverged at depth %d" % k)
        w.step(en[c])
    if quiesce:
        while True:
            en = w.enabled()
            w.enabled_cache = en
            if not en:
                break
            w.step(en[0])
        for m in mons:
            m.at_quiescence(w)
    return w, mons

def run_labels(scenario, monitor_factory, labels, quiesce=False):
    """Replay a list of event labels (the 'plain unit test' form of a counter-example)."""
    mons = monitor_factory()
    w = World(scenario, mons)
    for k, lab in enumerate(labels):
        lab = tuple(lab)
        en = w.enabled()
        w.enabled_cache = en
        if lab not in en and lab[0] not in ("crash", "restart", "arm_crash", "sleep", "advance"):
            raise HarnessError("replay diverged at step %d: %r not enabled (enabled: %r)" % (k, lab, en))
        w.step(lab)
    if quiesce:
        while True:
            en = w.enabled()
            w.enabled_cache = en
            if not en:
                break
            w.step(en[0])
    en = w.enabled()
    if not en:
        for m in mons:
            m.at_quiescence(w)
    return w, mons
