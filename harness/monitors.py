"""
Property monitors (DESIGN.md 5).  They observe only behavioural surfaces: the broker op log, the notification
subscriber, store contents as the API would report them, worker request logs, and (for "no per-execution state")
a structural scan of the engine objects' container attributes.
"""
import json

TERMINAL = ("SUCCEEDED", "FAILED", "TIMED_OUT", "ABORTED")

class Violation(object):
    def __init__(self, monitor, kind, detail, arn=None, site=None, step=None, extra=None):
        self.monitor = monitor; self.kind = kind; self.detail = detail; self.arn = arn
        self.site = site; self.step = step; self.extra = extra or {}
    def to_json(self):
        return {"monitor": self.monitor, "kind": self.kind, "detail": self.detail, "arn": self.arn,
                "site": list(self.site) if self.site else None, "step": self.step, "extra": self.extra}
    def __repr__(self):
        return "Violation(%s/%s: %s)" % (self.monitor, self.kind, self.detail)

class Monitor(object):
    name = "monitor"
    def __init__(self):
        self.violations = []
    def on_setup(self, w): pass
    def on_op(self, w, op): pass
    def on_note(self, w, note): pass
    def after_step(self, w, label): pass
    def at_quiescence(self, w): pass
    def state(self): return None
    def flag(self, w, kind, detail, arn=None, site=None, **extra):
        self.violations.append(Violation(self.name, kind, detail, arn, site, w.step_no, extra))

def _site_fn(site):
    return site[1] if site else None

# ------------------------------------------------------------------------------------------------------
class Notes(object):
    """Shared bookkeeping: status notifications per execution and the set of started executions."""
    def __init__(self):
        self.status = {}     # arn -> list of statuses in publication order
        self.started = set()

class MLife(Monitor):
    """C02: RUNNING -> exactly one terminal; terminal record frozen; record shape."""
    name = "M-life"
    def __init__(self):
        super().__init__()
        self.status = {}
        self.frozen = {}
        self.started = set()
        self.flagged = set()

    def on_op(self, w, op):
        if op["op"] == "publish" and op.get("arn") and op.get("exchange") == "":
            try:
                ctx = json.loads(op["body"].decode("utf8"))["context"]
                st = ctx.get("State") or {}
                if not st.get("Name"):
                    sm = (ctx.get("StateMachine") or {}).get("Id")
                    for e in w.engines():
                        if sm in e.asl_store or "Definition" in (ctx.get("StateMachine") or {}):
                            self.started.add(op["arn"])
                        break
            except Exception:
                pass

    def on_note(self, w, note):
        body = note["body"] or {}
        d = body.get("detail") or {}
        arn, st = d.get("executionArn"), d.get("status")
        seq = self.status.setdefault(arn, [])
        if st == "RUNNING":
            if seq:
                self.flag(w, "second_running", "RUNNING notified again after %s" % seq, arn)
        else:
            if not seq:
                self.flag(w, "terminal_without_running", "%s notified without RUNNING" % st, arn)
            elif any(s in TERMINAL for s in seq):
                self.flag(w, "notification_after_terminal", "%s notified after %s" % (st, seq), arn,
                          first=[s for s in seq if s in TERMINAL][0], second=st)
        seq.append(st)

    @staticmethod
    def _tuple(rec):
        return [rec.get("status"), rec.get("output"), rec.get("error"), rec.get("cause"), rec.get("stopDate")]

    def after_step(self, w, label):
        recs = w.executions()
        for arn, rec in recs.items():
            st = rec.get("status")
            term = st in TERMINAL
            key = None
            if (rec.get("stopDate") is not None) != term:
                key = ("shape_stopDate", "stopDate=%r with status %s" % (rec.get("stopDate"), st))
            elif (rec.get("output") is not None) != (st == "SUCCEEDED"):
                key = ("shape_output", "output=%r with status %s" % (rec.get("output"), st))
            elif st == "FAILED" and not (isinstance(rec.get("error"), str) and rec.get("error")):
                key = ("shape_error", "FAILED with error=%r" % (rec.get("error"),))
            elif st != "FAILED" and (rec.get("error") is not None or rec.get("cause") is not None):
                key = ("shape_error", "status %s with error=%r cause=%r" % (st, rec.get("error"), rec.get("cause")))
            if key and (arn, key[0]) not in self.flagged:
                self.flagged.add((arn, key[0]))
                self.flag(w, key[0], key[1], arn)
            seq = self.status.get(arn, [])
            if any(s in TERMINAL for s in seq):
                t = self._tuple(rec)
                if arn not in self.frozen:
                    self.frozen[arn] = t
                elif self.frozen[arn] != t and (arn, "changed") not in self.flagged:
                    self.flagged.add((arn, "changed"))
                    self.flag(w, "terminal_record_changed", "%s -> %s" % (self.frozen[arn], t), arn)

    def at_quiescence(self, w):
        for arn in sorted(self.started | set(w.started) | set(self.status)):
            seq = self.status.get(arn, [])
            if not any(s in TERMINAL for s in seq):
                self.flag(w, "never_terminal", "execution started but never reached a terminal status (notifications %s)" % seq, arn)

    def state(self):
        return [sorted(self.status.items()), sorted(self.frozen.items()), sorted(self.started)]

# ------------------------------------------------------------------------------------------------------
class MCarry(Monitor):
    """C03/C04: after every broker operation a RUNNING execution is carried by a queued or unacked event;
    every delivery tag is acked exactly once (the sim answers 406 otherwise)."""
    name = "M-carry"
    def __init__(self):
        super().__init__()
        self.running = {}     # arn -> True while RUNNING notified and no terminal yet
        self.flagged = set()

    def on_note(self, w, note):
        d = (note["body"] or {}).get("detail") or {}
        arn, st = d.get("executionArn"), d.get("status")
        if st == "RUNNING":
            self.running[arn] = True
        elif st in TERMINAL:
            self.running.pop(arn, None)

    def carried(self, w):
        have = set()
        b = w.broker
        for q in b.queues.values():
            for m in q.messages:
                a = m.meta()[0]
                if a:
                    have.add(a)
        for conn in b.connections:
            if not conn.is_open:
                continue
            for ch in conn.channels:
                for (qn, m, c) in ch.unacked.values():
                    a = m.meta()[0]
                    if a:
                        have.add(a)
        return have

    def on_op(self, w, op):
        kind = op["op"]
        if kind == "channel_closed_by_broker" and op.get("code") == 406 and w.step_no > 0:
            self.flag(w, "bad_ack", op.get("text"), None, op.get("site"))
            return
        if kind not in ("ack", "expired") or not self.running:
            return
        have = self.carried(w)
        for arn in self.running:
            if arn not in have and arn not in self.flagged:
                self.flagged.add(arn)
                self.flag(w, "uncarried", "after %s of %s nothing in the broker carries the RUNNING execution" % (
                    kind, op.get("message_id")), arn, op.get("site"), acked_arn=op.get("arn"))

    def state(self):
        return [sorted(self.running), sorted(self.flagged)]

# ------------------------------------------------------------------------------------------------------
def structural_scan(w):
    """Sizes of every plain container attribute reachable from the engine objects (by vars(), not by name)."""
    out = {}
    for inst in w.live_instances():
        for oname, obj in (("engine", inst.engine), ("dispatcher", inst.dispatcher), ("task_dispatcher", inst.engine.task_dispatcher)):
            for attr, v in vars(obj).items():
                if type(v) in (dict, list, set):
                    out["i%d.%s.%s" % (inst.idx, oname, attr)] = len(v)
    return out

class MDrain(Monitor):
    """C03/C06 drain clause at quiescence with every execution terminal."""
    name = "M-drain"
    def __init__(self, life):
        super().__init__()
        self.life = life
        self.baseline = {}
    def on_setup(self, w):
        self.baseline = structural_scan(w)
    def at_quiescence(self, w):
        arns = self.life.started | set(w.started) | set(self.life.status)
        if any(not any(s in TERMINAL for s in self.life.status.get(a, [])) for a in arns):
            return  # liveness failure is M-life's business
        b = w.broker
        for inst in w.live_instances():
            for ch in inst.conn.channels:
                for tag, (qn, m, c) in sorted(ch.unacked.items()):
                    obj = m.meta()[1]
                    st = None
                    try:
                        st = obj["context"]["State"]["Name"]
                    except Exception:
                        pass
                    self.flag(w, "unacked_at_drain", "delivery %d from %s (state %r) still unacknowledged" % (tag, qn, st),
                              m.meta()[0], None, queue=qn, state=st)
            for t in w.timers(inst.conn):
                if not w.is_heartbeat(t):
                    from pika import _core as simcore
                    self.flag(w, "timer_at_drain", "live timer %s" % simcore.timer_kind(t.callback), None, None,
                              timer=simcore.timer_kind(t.callback))
        for qn, q in b.queues.items():
            if q.messages and q.consumers and not qn.startswith("verif."):
                self.flag(w, "queued_at_drain", "%d message(s) left in %s" % (len(q.messages), qn), None, None, queue=qn)
        scan = structural_scan(w)
        for k, n in scan.items():
            if n != self.baseline.get(k, 0):
                self.flag(w, "state_retained", "%s holds %d entries (baseline %d)" % (k, n, self.baseline.get(k, 0)),
                          None, None, attr=k.split(".", 1)[1])

# ------------------------------------------------------------------------------------------------------
class MEscape(Monitor):
    """Exceptions escaping an engine callback / the engine process exiting."""
    name = "M-escape"
    def __init__(self):
        super().__init__()
        self.seen = 0
    def after_step(self, w, label):
        while self.seen < len(w.escaped):
            step, lab, err = w.escaped[self.seen]
            self.seen += 1
            self.flag(w, "escaped_exception", "%s during %s" % (err, lab), None, None, error=err.split(":")[0])
