"""
Property monitors (DESIGN.md 5).  They observe only behavioural surfaces: the broker op log, the notification
subscriber, store contents as the API would report them, worker request logs, and (for "no per-execution state")
a structural scan of the engine objects' container attributes.
"""
import json

TERMINAL = ("SUCCEEDED", "FAILED", "TIMED_OUT", "ABORTED")

class Violation(object):
    def __init__(self, monitor, kind, detail, arn=None, site=None, step=None, extra=None):
        self.monitor = monitor; self.kind = kind; self.detail = detail; self.arn = arn
        self.site = site; self.step = step; self.extra = extra or {}
    def to_json(self):
        return {"monitor": self.monitor, "kind": self.kind, "detail": self.detail, "arn": self.arn,
                "site": list(self.site) if self.site else None, "step": self.step, "extra": self.extra}
    def __repr__(self):
        return "Violation(%s/%s: %s)" % (self.monitor, self.kind, self.detail)

class Monitor(object):
    name = "monitor"
    def __init__(self):
        self.violations = []
    def on_setup(self, w): pass
    def on_op(self, w, op): pass
    def on_note(self, w, note): pass
    def after_step(self, w, label): pass
    def at_quiescence(self, w): pass
    def state(self): return None
    def flag(self, w, kind, detail, arn=None, site=None, **extra):
        extra.setdefault("in", getattr(w, "cur_kind", None))
        self.violations.append(Violation(self.name, kind, detail, arn, site, w.step_no, extra))

def _site_fn(site):
    return site[1] if site else None

# ------------------------------------------------------------------------------------------------------
class Notes(object):
    """Shared bookkeeping: status notifications per execution and the set of started executions."""
    def __init__(self):
        self.status = {}     # arn -> list of statuses in publication order
        self.started = set()

class MLife(Monitor):
    """C02: RUNNING -> exactly one terminal; terminal record frozen; record shape."""
    name = "M-life"
    def __init__(self):
        super().__init__()
        self.status = {}
        self.frozen = {}
        self.started = set()
        self.flagged = set()

    def on_op(self, w, op):
        if op["op"] == "crash":
            # the start event of an execution that was not acknowledged before a crash is redelivered and announced again
            self.crashes = getattr(self, "crashes", 0) + 1
        if op["op"] == "publish" and op.get("arn") and op.get("exchange") == "":
            try:
                ctx = json.loads(op["body"].decode("utf8"))["context"]
                st = ctx.get("State") or {}
                if not st.get("Name"):
                    sm = (ctx.get("StateMachine") or {}).get("Id")
                    for e in w.engines():
                        if sm in e.asl_store or "Definition" in (ctx.get("StateMachine") or {}):
                            self.started.add(op["arn"])
                        break
            except Exception:
                pass

    def on_note(self, w, note):
        body = note["body"] or {}
        d = body.get("detail") or {}
        arn, st = d.get("executionArn"), d.get("status")
        seq = self.status.setdefault(arn, [])
        if st == "RUNNING":
            if seq and not (getattr(self, "crashes", 0) and seq.count("RUNNING") <= self.crashes and not any(x in TERMINAL for x in seq)):
                self.flag(w, "second_running", "RUNNING notified again after %s" % seq, arn)
        else:
            if not seq:
                self.flag(w, "terminal_without_running", "%s notified without RUNNING" % st, arn)
            elif any(s in TERMINAL for s in seq):
                self.flag(w, "notification_after_terminal", "%s notified after %s" % (st, seq), arn,
                          first=[s for s in seq if s in TERMINAL][0], second=st)
        seq.append(st)

    @staticmethod
    def _tuple(rec):
        return [rec.get("status"), rec.get("output"), rec.get("error"), rec.get("cause"), rec.get("stopDate")]

    def after_step(self, w, label):
        recs = w.executions()
        for arn, rec in recs.items():
            st = rec.get("status")
            term = st in TERMINAL
            key = None
            if (rec.get("stopDate") is not None) != term:
                key = ("shape_stopDate", "stopDate=%r with status %s" % (rec.get("stopDate"), st))
            elif (rec.get("output") is not None) != (st == "SUCCEEDED"):
                key = ("shape_output", "output=%r with status %s" % (rec.get("output"), st))
            elif st == "FAILED" and not (isinstance(rec.get("error"), str) and rec.get("error")):
                key = ("shape_error", "FAILED with error=%r" % (rec.get("error"),))
            elif st != "FAILED" and (rec.get("error") is not None or rec.get("cause") is not None):
                key = ("shape_error", "status %s with error=%r cause=%r" % (st, rec.get("error"), rec.get("cause")))
            if key and (arn, key[0]) not in self.flagged:
                self.flagged.add((arn, key[0]))
                self.flag(w, key[0], key[1], arn)
            seq = self.status.get(arn, [])
            if any(s in TERMINAL for s in seq):
                t = self._tuple(rec)
                if arn not in self.frozen:
                    self.frozen[arn] = t
                elif self.frozen[arn] != t and (arn, "changed") not in self.flagged:
                    self.flagged.add((arn, "changed"))
                    self.flag(w, "terminal_record_changed", "%s -> %s" % (self.frozen[arn], t), arn)

    def at_quiescence(self, w):
        for arn in sorted(self.started | set(w.started) | set(self.status)):
            seq = self.status.get(arn, [])
            if not any(s in TERMINAL for s in seq):
                self.flag(w, "never_terminal", "execution started but never reached a terminal status (notifications %s)" % seq, arn)

    def state(self):
        return [sorted(self.status.items()), sorted(self.frozen.items()), sorted(self.started), getattr(self, "crashes", 0)]

# ------------------------------------------------------------------------------------------------------
class MCarry(Monitor):
    """C03/C04: after every broker operation a RUNNING execution is carried by a queued or unacked event;
    every delivery tag is acked exactly once (the sim answers 406 otherwise)."""
    name = "M-carry"
    def __init__(self):
        super().__init__()
        self.running = {}     # arn -> True while RUNNING notified and no terminal yet
        self.flagged = set()

    def on_note(self, w, note):
        d = (note["body"] or {}).get("detail") or {}
        arn, st = d.get("executionArn"), d.get("status")
        if st == "RUNNING":
            self.running[arn] = True
        elif st in TERMINAL:
            self.running.pop(arn, None)

    def carried(self, w):
        have = set()
        b = w.broker
        for q in b.queues.values():
            for m in q.messages:
                a = m.meta()[0]
                if a:
                    have.add(a)
        for conn in b.connections:
            if not conn.is_open:
                continue
            for ch in conn.channels:
                for (qn, m, c) in ch.unacked.values():
                    a = m.meta()[0]
                    if a:
                        have.add(a)
        return have

    def on_op(self, w, op):
        kind = op["op"]
        if kind == "channel_closed_by_broker" and op.get("code") == 406 and w.step_no > 0:
            self.flag(w, "bad_ack", op.get("text"), None, op.get("site"))
            return
        if kind == "ack_multiple" and w.step_no > 0:
            self.flag(w, "ack_covers_other_deliveries", "one basic_ack(delivery_tag=%s, multiple=True) acknowledged %d deliveries (%s)" % (
                op.get("delivery_tag"), len(op.get("tags") or []), ", ".join(op.get("queues") or [])), None, op.get("site"))
            return
        if kind not in ("ack", "expired") or not self.running:
            return
        have = self.carried(w)
        for arn in self.running:
            if arn not in have and arn not in self.flagged:
                self.flagged.add(arn)
                self.flag(w, "uncarried", "after %s of %s nothing in the broker carries the RUNNING execution" % (
                    kind, op.get("message_id")), arn, op.get("site"), acked_arn=op.get("arn"))

    def state(self):
        return [sorted(self.running), sorted(self.flagged)]

# ------------------------------------------------------------------------------------------------------
def structural_scan(w):
    """Sizes of every plain container attribute reachable from the engine objects (by vars(), not by name)."""
    out = {}
    for inst in w.live_instances():
        for oname, obj in (("engine", inst.engine), ("dispatcher", inst.dispatcher), ("task_dispatcher", inst.engine.task_dispatcher)):
            for attr, v in vars(obj).items():
                if type(v) in (dict, list, set):
                    out["i%d.%s.%s" % (inst.idx, oname, attr)] = len(v)
    return out

class MDrain(Monitor):
    """C03/C06 drain clause at quiescence with every execution terminal."""
    name = "M-drain"
    def __init__(self, life):
        super().__init__()
        self.life = life
        self.baseline = {}
    def on_setup(self, w):
        self.baseline = structural_scan(w)
        self.idle_flagged = set()

    ORPHAN_TIMERS = ("handle_orphaned_responses", "log_and_acknowledge_orphaned_responses", "EventDispatcher.heartbeat")

    def after_step(self, w, label):
        """Idle point: every execution is terminal and no message is anywhere in flight.  Nothing may be held then
        (the retention of a late orphaned reply, which is a deliberate short-lived parking place, is exempt)."""
        arns = self.life.started | set(w.started) | set(self.life.status)
        if not arns or any(not any(s in TERMINAL for s in self.life.status.get(a, [])) for a in arns):
            return
        if w.api_pos < len(w.script):
            return
        b = w.broker
        for qn, q in b.queues.items():
            if q.messages and not qn.startswith("verif."):
                return
        for inst in w.live_instances():
            if inst.conn.pending_calls or any(ch.pending_returns for ch in inst.conn.channels):
                return
        from pika import _core as simcore
        for inst in w.live_instances():
            if any(t.deadline <= w.clock.now and not w.is_heartbeat(t) for t in w.timers(inst.conn)):
                return      # a due timer is work in flight
        for inst in w.live_instances():
            for ch in inst.conn.channels:
                for tag, (qn, m, c) in sorted(ch.unacked.items()):
                    if qn.startswith("asl_workflow_reply_to"):
                        continue
                    if "unacked" not in self.idle_flagged:
                        self.idle_flagged.add("unacked")
                        st = None
                        try:
                            st = m.meta()[1]["context"]["State"]["Name"]
                        except Exception:
                            pass
                        self.flag(w, "unacked_at_idle", "all executions are terminal and nothing is in flight, but delivery %d from %s (state %r) is unacknowledged" % (tag, qn, st),
                                  m.meta()[0], None, queue=qn, state=st)
            for t in w.timers(inst.conn):
                k = simcore.timer_kind(t.callback)
                if not any(k.endswith(x) for x in self.ORPHAN_TIMERS) and ("timer", k) not in self.idle_flagged:
                    self.idle_flagged.add(("timer", k))
                    self.flag(w, "timer_at_idle", "all executions are terminal and nothing is in flight, but timer %s is still armed" % k, None, None, timer=k.split(".<locals>.")[-1])
        scan = structural_scan(w)
        for k, n in scan.items():
            if k.endswith(".orphaned_responses"):
                continue
            if n != self.baseline.get(k, 0) and k not in self.idle_flagged:
                self.idle_flagged.add(k)
                self.flag(w, "state_retained_at_idle", "all executions are terminal and nothing is in flight, but %s holds %d entries (baseline %d)" % (k, n, self.baseline.get(k, 0)),
                          None, None, attr=k.split(".", 1)[1])

    def state(self):
        return sorted(map(str, self.idle_flagged))

    def at_quiescence(self, w):
        arns = self.life.started | set(w.started) | set(self.life.status)
        if any(not any(s in TERMINAL for s in self.life.status.get(a, [])) for a in arns):
            return  # liveness failure is M-life's business
        b = w.broker
        for inst in w.live_instances():
            for ch in inst.conn.channels:
                for tag, (qn, m, c) in sorted(ch.unacked.items()):
                    obj = m.meta()[1]
                    st = None
                    try:
                        st = obj["context"]["State"]["Name"]
                    except Exception:
                        pass
                    self.flag(w, "unacked_at_drain", "delivery %d from %s (state %r) still unacknowledged" % (tag, qn, st),
                              m.meta()[0], None, queue=qn, state=st)
            for t in w.timers(inst.conn):
                if not w.is_heartbeat(t):
                    from pika import _core as simcore
                    self.flag(w, "timer_at_drain", "live timer %s" % simcore.timer_kind(t.callback), None, None,
                              timer=simcore.timer_kind(t.callback))
        for qn, q in b.queues.items():
            if q.messages and q.consumers and not qn.startswith("verif."):
                self.flag(w, "queued_at_drain", "%d message(s) left in %s" % (len(q.messages), qn), None, None, queue=qn)
        scan = structural_scan(w)
        for k, n in scan.items():
            if n != self.baseline.get(k, 0):
                self.flag(w, "state_retained", "%s holds %d entries (baseline %d)" % (k, n, self.baseline.get(k, 0)),
                          None, None, attr=k.split(".", 1)[1])

# ------------------------------------------------------------------------------------------------------
class MEscape(Monitor):
    """Exceptions escaping an engine callback / the engine process exiting."""
    name = "M-escape"
    def __init__(self):
        super().__init__()
        self.seen = 0
    def after_step(self, w, label):
        while self.seen < len(w.escaped):
            step, lab, err = w.escaped[self.seen]
            self.seen += 1
            self.flag(w, "escaped_exception", "%s during %s" % (err, lab), None, None, error=err.split(":")[0])

# ------------------------------------------------------------------------------------------------------
def _defn_successors(defn):
    """state name -> set of possible next names, at the top level of a definition."""
    out = {}
    if not isinstance(defn, dict) or not isinstance(defn.get("States"), dict):
        return out
    for name, st in defn.get("States", {}).items():
        s = set()
        if isinstance(st, dict):
            if "Next" in st:
                s.add(st["Next"])
            if "Default" in st:
                s.add(st["Default"])
            for c in st.get("Choices", []) or []:
                if isinstance(c, dict) and "Next" in c:
                    s.add(c["Next"])
            for c in st.get("Catch", []) or []:
                if isinstance(c, dict) and "Next" in c:
                    s.add(c["Next"])
        out[name] = s
    return out

class MHist(Monitor):
    """C09: the history of every STANDARD execution is a gap-free, ordered, faithful log (checked after every step)."""
    name = "M-hist"
    def __init__(self):
        super().__init__()
        self.checked = {}     # arn -> number of events already verified
        self.term = {}        # arn -> index of the terminal event
        self.open = {}        # arn -> {state name: entered - exited}
        self.last_ts = {}
        self.top = {}         # arn -> [last entered top-level state, last exited top-level output text]
        self.flagged = set()
        self.failure_seen = {}
        self.bal = {}
        self.api_seen = 0
        self.reuse = {}

    def _flag(self, w, arn, kind, detail, **extra):
        if (arn, kind) in self.flagged:
            return
        self.flagged.add((arn, kind))
        self.flag(w, kind, detail, arn, None, **extra)

    def after_step(self, w, label):
        engs = w.engines()
        if not engs:
            return
        e = engs[0]
        # what GetExecutionHistory answered (scripted API reads): the stored list, or exactly its reverse; reading changes nothing
        while self.api_seen < len(w.api_log):
            a = w.api_log[self.api_seen]; self.api_seen += 1
            if a["action"] != "GetExecutionHistory" or a.get("body") is None:
                continue
            arn = (a.get("params") or {}).get("executionArn")
            stored = e.execution_history.get(arn)
            if stored is None:
                if a["status"] != 400 or a.get("type") != "ExecutionDoesNotExist":
                    self._flag(w, arn, "api_history_differs", "GetExecutionHistory of an execution without history -> HTTP %s %s" % (a["status"], a.get("type")), what="missing")
                continue
            stored = [dict(x) for x in stored]
            got = a["body"].get("events") if isinstance(a["body"], dict) else None
            rev = bool((a.get("params") or {}).get("reverseOrder"))
            ids = lambda evs: [x.get("id") for x in evs or []]
            want = sorted(ids(stored), reverse=rev)
            if a["status"] != 200 or got is None or ids(got) != want:
                self._flag(w, arn, "api_history_differs", "GetExecutionHistory(reverseOrder=%s) -> HTTP %s ids %s, the history holds ids %s" % (rev, a["status"], ids(got), ids(stored)), what="reverse" if rev else "forward")
            elif [x.get("type") for x in got] != [x.get("type") for x in sorted(stored, key=lambda x: x.get("id"), reverse=rev)]:
                self._flag(w, arn, "api_history_differs", "GetExecutionHistory(reverseOrder=%s) event types differ from the stored history" % rev, what="types")
        for arn in list(e.execution_history.keys()):
            h = e.execution_history[arn]
            n = len(h)
            done = self.checked.get(arn, 0)
            if n < done:
                if arn in self.term and len(MViews.starts_of(w, arn)) > 1 and self.reuse.get(arn, 0) + 1 < len(MViews.starts_of(w, arn)):
                    # the scenario starts this execution name again after its first run has ended: a new history begins
                    self.reuse[arn] = self.reuse.get(arn, 0) + 1
                    for dct in (self.checked, self.term, self.open, self.last_ts, self.top, self.failure_seen, self.bal):
                        dct.pop(arn, None)
                    done = 0
                else:
                    self._flag(w, arn, "history_shrank", "history went from %d to %d events" % (done, n))
                    continue
            if n == done:
                # nothing new: a history that has been closed keeps agreeing with the record (an execution name started again gets a new history)
                rec0 = e.executions.get(arn)
                if arn in self.term and rec0 is not None and rec0.get("status") == "RUNNING":
                    self._flag(w, arn, "terminal_disagrees", "the history ends with %s but the record says RUNNING" % h[self.term[arn]]["type"], what="closed-history-running-record")
                continue
            rec = e.executions.get(arn)
            sm = None
            for sname, sarn in w.machines.items():
                if rec is not None and rec.get("stateMachineArn") == sarn:
                    sm = w.sc["machines"][sname]
            if sm is None:
                # no record (as for an EXPRESS execution): the machine is named in the execution ARN
                parts = str(arn).split(":")
                if len(parts) >= 8 and parts[5] == "execution" and parts[6] in w.sc.get("machines", {}):
                    sm = w.sc["machines"][parts[6]]
            mtype = (sm or {}).get("type", "STANDARD")
            if mtype == "EXPRESS":
                self._flag(w, arn, "express_has_history", "an EXPRESS execution has %d history events" % n)
            succ = _defn_successors(sm["definition"]) if sm else {}
            top_names = set(succ)
            opn = self.open.setdefault(arn, {})
            for i in range(done, n):
                ev = h[i]
                t = ev.get("type")
                if ev.get("id") != i + 1 or ev.get("previousEventId") != i:
                    self._flag(w, arn, "bad_numbering", "event at position %d has id=%r previousEventId=%r" % (i + 1, ev.get("id"), ev.get("previousEventId")))
                ts = ev.get("timestamp")
                if arn in self.last_ts and ts < self.last_ts[arn]:
                    self._flag(w, arn, "timestamp_decreases", "event %d timestamp %r < %r" % (i + 1, ts, self.last_ts[arn]))
                self.last_ts[arn] = ts
                if arn in self.term:
                    self._flag(w, arn, "event_after_terminal", "%s appended after %s" % (t, h[self.term[arn]]["type"]), what=t)
                if i == 0:
                    if t != "ExecutionStarted":
                        self._flag(w, arn, "first_event", "first event is %s" % t)
                    elif rec is not None and rec.get("input") is not None and ev.get("executionStartedEventDetails", {}).get("input") != rec.get("input"):
                        self._flag(w, arn, "started_input", "ExecutionStarted input %r != record input %r" % (
                            ev.get("executionStartedEventDetails", {}).get("input"), rec.get("input")))
                elif t == "ExecutionStarted":
                    self._flag(w, arn, "second_started", "ExecutionStarted at position %d" % (i + 1))
                if t in ("ExecutionSucceeded", "ExecutionFailed"):
                    self.term[arn] = i
                    if t == "ExecutionSucceeded" and not self.failure_seen.get(arn):
                        # an execution in which nothing failed, timed out or was aborted has logged the completion of everything it scheduled
                        for fam, nb in sorted((self.bal.get(arn) or {}).items()):
                            if nb > 0:
                                self._flag(w, arn, "scheduled_without_completion", "%d %sScheduled event(s) without %sSucceeded in an execution that succeeded without any failure" % (nb, fam, fam), what=fam)
                # a task's completion is logged after its scheduling: at every prefix completions never outnumber schedulings
                bal = self.bal.setdefault(arn, {"Task": 0, "LambdaFunction": 0})
                for fam in ("Task", "LambdaFunction"):
                    if t == fam + "Scheduled":
                        bal[fam] += 1
                    elif t in (fam + "Succeeded", fam + "Failed", fam + "TimedOut"):
                        bal[fam] -= 1
                        if bal[fam] < 0:
                            bal[fam] = 0
                            self._flag(w, arn, "completion_without_scheduled", "%s at position %d without a preceding %sScheduled" % (t, i + 1, fam), what=t)
                if t and ("Failed" in t or "TimedOut" in t or "Aborted" in t):
                    self.failure_seen[arn] = True
                if t and t.endswith("StateEntered"):
                    d = ev.get("stateEnteredEventDetails", {})
                    nm = d.get("name")
                    opn[nm] = opn.get(nm, 0) + 1
                    if nm in top_names and not self._in_fanout(sm, nm):
                        prev = self.top.get(arn)
                        if prev is not None:
                            pname, pout, pexited = prev
                            if nm not in succ.get(pname, set()) and not (nm == pname):
                                self._flag(w, arn, "bad_transition", "%s entered after %s (allowed: %s)" % (nm, pname, sorted(succ.get(pname, []))))
                            if not pexited and not self.failure_seen.get(arn):
                                self._flag(w, arn, "entered_before_exit", "%s entered before %s exited" % (nm, pname))
                            if pexited and pout is not None and d.get("input") != pout:
                                self._flag(w, arn, "input_output_mismatch", "%s entered with %r but %s exited with %r" % (nm, d.get("input"), pname, pout))
                        else:
                            st0 = sm["definition"].get("StartAt") if (sm and isinstance(sm["definition"], dict)) else None
                            if st0 is not None and nm != st0:
                                self._flag(w, arn, "bad_transition", "first state entered is %s, StartAt is %s" % (nm, st0))
                        self.top[arn] = [nm, None, False]
                if t and t.endswith("StateExited"):
                    d = ev.get("stateExitedEventDetails", {})
                    nm = d.get("name")
                    opn[nm] = opn.get(nm, 0) - 1
                    if opn[nm] < 0:
                        self._flag(w, arn, "exit_without_entry", "%s for %s without a matching StateEntered" % (t, nm))
                    prev = self.top.get(arn)
                    if prev is not None and prev[0] == nm:
                        prev[1] = d.get("output"); prev[2] = True
            self.checked[arn] = n
            # terminal agreement with the record
            if arn in self.term and rec is not None:
                ev = h[self.term[arn]]
                if ev["type"] == "ExecutionSucceeded":
                    if rec.get("status") != "SUCCEEDED" or ev.get("executionSucceededEventDetails", {}).get("output") != rec.get("output"):
                        self._flag(w, arn, "terminal_disagrees", "ExecutionSucceeded %r vs record %r/%r" % (
                            ev.get("executionSucceededEventDetails"), rec.get("status"), rec.get("output")))
                    if not self.failure_seen.get(arn):
                        bad = {k: v for k, v in opn.items() if v != 0}
                        if bad:
                            self._flag(w, arn, "entered_never_exited", "execution SUCCEEDED without failures but entered-exited counts are %r" % bad)
                else:
                    d = ev.get("executionFailedEventDetails", {})
                    if rec.get("status") != "FAILED" or d.get("error") != rec.get("error") or d.get("cause") != rec.get("cause"):
                        self._flag(w, arn, "terminal_disagrees", "ExecutionFailed %r vs record %r/%r/%r" % (d, rec.get("status"), rec.get("error"), rec.get("cause")))
        # record says terminal but history has no terminal event
        for arn, rec in e.executions.items():
            if rec.get("status") in TERMINAL and arn in e.execution_history and arn not in self.term:
                self._flag(w, arn, "terminal_missing", "record is %s but the history has no terminal event" % rec.get("status"))

    @staticmethod
    def _in_fanout(sm, nm):
        return False

    def state(self):
        # (state names come from event bodies: under a broken engine they can be None or not strings - order by their text)
        k = lambda x: json.dumps(x, sort_keys=True, default=str)
        return [sorted(((a, n) for a, n in self.checked.items()), key=k), sorted(self.term.items(), key=k),
                sorted(((a, sorted(o.items(), key=k)) for a, o in self.open.items()), key=k), sorted(((a, v) for a, v in self.top.items()), key=k),
                sorted(self.failure_seen, key=k), sorted(((a, sorted(b.items(), key=k)) for a, b in self.bal.items()), key=k)]

# ------------------------------------------------------------------------------------------------------
class MViews(Monitor):
    """C11: record, last notification and last history event tell the same story; notification shape; record keeps seconds."""
    name = "M-views"
    def __init__(self):
        super().__init__()
        self.last = {}
        self.first = {}
        self.count = {}
        self.runs = {}
        self.flagged = set()

    def _flag(self, w, arn, kind, detail, **extra):
        if (arn, kind) in self.flagged:
            return
        self.flagged.add((arn, kind))
        self.flag(w, kind, detail, arn, None, **extra)

    @staticmethod
    def starts_of(w, arn):
        return [s_ for s_ in list(w.sc.get("starts", [])) + [c for c in w.sc.get("script", []) if c.get("op") == "start"]
                if arn and arn.endswith(":%s:%s" % (s_.get("machine"), s_.get("name")))]

    def reused(self, w, arn):
        return len(self.starts_of(w, arn)) > 1

    def on_note(self, w, note):
        b = note["body"] or {}
        d = b.get("detail") or {}
        arn = d.get("executionArn")
        st = d.get("status")
        prev = self.last.get(arn)
        if st == "RUNNING" and prev is not None and prev.get("status") in TERMINAL and self.reused(w, arn):
            # the name is used again after the first run ended (scripted): a new run begins, judged on its own
            self.first.pop(arn, None)
            for k0 in [k0 for k0 in self.count if k0[0] == arn]:
                del self.count[k0]
        if st == "RUNNING":
            self.runs[arn] = self.runs.get(arn, 0) + 1
        self.last[arn] = d
        k = (arn, st)
        self.count[k] = self.count.get(k, 0) + 1
        if self.count[k] > 1:
            self._flag(w, arn, "status_published_twice", "%s published %d times" % (st, self.count[k]), what=st)
        want_key = "%s.%s" % (d.get("stateMachineArn"), st)
        if note["key"] != want_key:
            self._flag(w, arn, "wrong_subject", "published to %r, expected %r" % (note["key"], want_key))
        shape = []
        if b.get("version") != "0": shape.append("version")
        if b.get("detail-type") != "Step Functions Execution Status Change": shape.append("detail-type")
        if b.get("source") != "aws.states": shape.append("source")
        if b.get("resources") != [arn]: shape.append("resources")
        parts = (arn or "").split(":")
        if len(parts) > 4 and (b.get("account") != parts[4] or b.get("region") != parts[3]): shape.append("account/region")
        if not isinstance(b.get("id"), str) or not isinstance(b.get("time"), str): shape.append("id/time")
        for f in ("startDate", "stopDate"):
            v = d.get(f)
            if v is not None and (not isinstance(v, int) or isinstance(v, bool)):
                shape.append(f + " not integer ms")
        if d.get("startDate") is None: shape.append("startDate missing")
        if (d.get("stopDate") is None) != (st == "RUNNING"): shape.append("stopDate presence")
        for f in ("executionArn", "stateMachineArn", "name", "status", "input"):
            if f not in d: shape.append(f + " missing")
        if shape:
            self._flag(w, arn, "notification_shape", "notification for %s: %s" % (st, ", ".join(shape)), what=",".join(shape))
        # every notification of one execution describes the same execution: identity, input and start instant never change
        first = self.first.setdefault(arn, d)
        for f in ("stateMachineArn", "name", "input", "startDate"):
            if first.get(f) != d.get(f):
                self._flag(w, arn, "notifications_disagree", "%s: %r in the %s notification, %r in the %s notification" % (f, first.get(f), first.get("status"), d.get(f), st), what=f)
        # ... and the input is the one the execution was started with
        mine = self.starts_of(w, arn)
        for s_ in mine[max(0, min(self.runs.get(arn, 1), len(mine)) - 1):][:1]:
            if "input" in s_:
                try:
                    got = json.loads(d.get("input"))
                except Exception:
                    got = ("unparsable", d.get("input"))
                if got != s_["input"] or type(got) != type(s_["input"]):
                    self._flag(w, arn, "notification_input", "the %s notification carries input %r, the execution was started with %r" % (st, d.get("input"), s_["input"]), what="input")

    def after_step(self, w, label):
        recs = w.executions()
        engs = w.engines()
        for arn, rec in recs.items():
            d = self.last.get(arn)
            if d is None:
                continue
            for f in ("status", "input", "output"):
                if rec.get(f) != d.get(f):
                    self._flag(w, arn, "record_vs_notification", "%s: record %r, last notification %r" % (f, rec.get(f), d.get(f)), what=f)
            if rec.get("status") == "FAILED" and (rec.get("error") != d.get("error") or rec.get("cause") != d.get("cause")):
                self._flag(w, arn, "record_vs_notification", "error/cause: record %r/%r, notification %r/%r" % (rec.get("error"), rec.get("cause"), d.get("error"), d.get("cause")), what="error")
            for f in ("executionArn", "stateMachineArn", "name"):
                if rec.get(f) != d.get(f):
                    self._flag(w, arn, "record_vs_notification", "%s: record %r, notification %r" % (f, rec.get(f), d.get(f)), what=f)
            # the last history event of a terminal execution agrees with the record and the notification
            if rec.get("status") in TERMINAL and engs:
                h = engs[0].execution_history.get(arn)
                if h:
                    last = dict(list(h)[-1])
                    if last.get("type") == "ExecutionSucceeded":
                        hv = ("SUCCEEDED", last.get("executionSucceededEventDetails", {}).get("output"), None)
                    elif last.get("type") == "ExecutionFailed":
                        dd = last.get("executionFailedEventDetails", {})
                        hv = ("FAILED", None, dd.get("error"))
                    else:
                        hv = (last.get("type"), None, None)
                    rv = (rec.get("status"), rec.get("output") if rec.get("status") == "SUCCEEDED" else None, rec.get("error") if rec.get("status") == "FAILED" else None)
                    if hv != rv:
                        self._flag(w, arn, "history_vs_record", "last history event %r, record %r" % (hv, rv), what=str(last.get("type")))
                    firstev = dict(list(h)[0])
                    if firstev.get("type") == "ExecutionStarted" and firstev.get("executionStartedEventDetails", {}).get("input") != rec.get("input"):
                        self._flag(w, arn, "history_vs_record", "ExecutionStarted input %r, record input %r" % (firstev.get("executionStartedEventDetails", {}).get("input"), rec.get("input")), what="ExecutionStarted")
            # the stored record must still hold epoch seconds once the broadcast is over
            for f in ("startDate", "stopDate"):
                rv, nv = rec.get(f), d.get(f)
                if rv is None and nv is None:
                    continue
                if rv is None or nv is None or isinstance(rv, bool) or abs(rv * 1000 - nv) >= 1.0:
                    self._flag(w, arn, "record_timestamp_altered", "record %s=%r while the notification carries %r ms" % (f, rv, nv), what=f)
        # every live instance sharing the store answers alike
        if len(engs) > 1 and w.store_kind == "redis":
            base = {k: dict(v) for k, v in engs[0].executions.items()}
            for e in engs[1:]:
                other = {k: dict(v) for k, v in e.executions.items()}
                if other != base:
                    self._flag(w, None, "instances_disagree", "executions seen through two instances differ")

    def state(self):
        return [sorted((str(a), d.get("status")) for a, d in self.last.items()), sorted(self.flagged), sorted((str(a), n) for a, n in self.runs.items())]

# ------------------------------------------------------------------------------------------------------
class MFail(Monitor):
    """C06: once a Parallel/Map attempt has failed (terminal notification, retry republish, or <Type>StateFailed in the
    history) nothing carrying one of that attempt's branch ids publishes an event or issues an RPC request;
    no RPC request is issued for an execution that is already terminal."""
    name = "M-fail"
    def __init__(self):
        super().__init__()
        self.branch_ids = {}    # arn -> {branch id: parent state name}
        self.dead = {}          # arn -> set of dead branch ids
        self.msg = {}           # message id -> (arn, [branch ids])
        self.terminal = set()
        self.flagged = set()
        self.hist_len = {}

    def on_note(self, w, note):
        d = (note["body"] or {}).get("detail") or {}
        if d.get("status") in TERMINAL:
            self.terminal.add(d.get("executionArn"))
            arn = d.get("executionArn")
            self.dead.setdefault(arn, set()).update(self.branch_ids.get(arn, {}))

    def on_op(self, w, op):
        if op["op"] != "publish" or w.step_no == 0:
            return
        rk = op.get("routing_key")
        if op.get("arn"):
            try:
                ctx = json.loads(op["body"].decode("utf8"))["context"]
            except Exception:
                return
            arn = op["arn"]
            st = ctx.get("State") or {}
            ids = [b.get("ID") for b in (st.get("Branch") or []) if isinstance(b, dict) and b.get("ID")]
            self.msg[op.get("message_id")] = (arn, ids)
            dead = self.dead.setdefault(arn, set())
            for b in (st.get("Branch") or []):
                if isinstance(b, dict) and b.get("ID") and "Parent" in b:
                    self.branch_ids.setdefault(arn, {})[b["ID"]] = b["Parent"]
            hit = [i for i in ids if i in dead]
            if hit and (arn, "pub", st.get("Name")) not in self.flagged:
                self.flagged.add((arn, "pub", st.get("Name")))
                self.flag(w, "sibling_progress", "event for state %r published by a branch of an already failed Parallel/Map attempt" % st.get("Name"),
                          arn, op.get("site"), state=st.get("Name"))
            # a retry republish of the fan-out state kills the ids of the previous attempt
            if st.get("RetryCount") and not hit:
                name = st.get("Name")
                for bid, parent in self.branch_ids.get(arn, {}).items():
                    if parent == name and bid not in ids:
                        dead.add(bid)
        elif rk in w.workers:
            cid = (op.get("correlation_id") or "").split(".")[0]
            ent = self.msg.get(cid)
            if ent:
                arn, ids = ent
                if arn in self.terminal and (arn, "rpc") not in self.flagged:
                    self.flagged.add((arn, "rpc"))
                    self.flag(w, "rpc_after_terminal", "RPC request to %s issued after the execution's terminal notification" % rk, arn, op.get("site"), queue=rk)
                elif any(i in self.dead.get(arn, ()) for i in ids) and (arn, "rpc2", rk) not in self.flagged:
                    self.flagged.add((arn, "rpc2", rk))
                    self.flag(w, "sibling_rpc", "RPC request to %s issued by a branch of an already failed Parallel/Map attempt" % rk, arn, op.get("site"), queue=rk)

    def after_step(self, w, label):
        # <Type>StateFailed in the history marks every branch id created so far for that execution as dead
        for e in w.engines():
            for arn, h in e.execution_history.items():
                n0 = self.hist_len.get(arn, 0)
                n = len(h)
                if n > n0:
                    for ev in list(h)[n0:n]:
                        if ev.get("type") in ("ParallelStateFailed", "MapStateFailed"):
                            self.dead.setdefault(arn, set()).update(self.branch_ids.get(arn, {}))
                    self.hist_len[arn] = n
            break

    def state(self):
        return [sorted((a, sorted(s)) for a, s in self.dead.items()), sorted(self.terminal), sorted(map(str, self.flagged))]

# ------------------------------------------------------------------------------------------------------
INTERPRETER_ERRORS = ("States.IntrinsicFailure", "States.Runtime", "States.ResultPathMatchFailure", "States.ParameterPathFailure")

def _loose_eq(g, w):
    if isinstance(g, dict) and isinstance(w, dict):
        if set(g) != set(w):
            # an Error Output SHOULD carry a Cause: tolerate one the engine supplies where the reference has none
            if not ("Error" in w and set(g) - set(w) == {"Cause"} and not set(w) - set(g)):
                return False
        for k in w:
            if k == "Cause" and isinstance(g[k], str) and isinstance(w[k], str) and w.get("Error") in INTERPRETER_ERRORS:
                continue   # the wording of an error the interpreter itself raises is no part of any property
            elif k == "Cause" and isinstance(g[k], str) and isinstance(w[k], str):
                # the engine's own boiler-plate ("... (entered at the event id #N). ") is not part of the compared output
                import re as _re
                strip = lambda t: _re.sub(r" \(entered at the event id #\d+\)", "", t)
                if not strip(g[k]).endswith(strip(w[k])):
                    return False
            elif not _loose_eq(g[k], w[k]):
                return False
        return True
    if isinstance(g, list) and isinstance(w, list):
        return len(g) == len(w) and all(_loose_eq(a, b) for a, b in zip(g, w))
    if w == "<<request id: any string>>":
        return isinstance(g, str)
    return json.dumps(g) == json.dumps(w)

class MRef(Monitor):
    """Differential oracle: the terminal status / output / error of every execution equals what the reference
    interpreter computed for the scenario (scenario['expect'][arn]), on every schedule."""
    name = "M-ref"
    def __init__(self, scenario):
        super().__init__()
        self.expect = scenario.get("expect") or {}
        self.seen = set()
        # executions whose names the engine invents (raw start events): the terminal outputs as a multiset
        self.expect_outputs = scenario.get("expect_outputs")
        self.outputs = []
    def at_quiescence(self, w):
        if self.expect_outputs is not None:
            got = sorted(json.dumps(o, sort_keys=True) for o in self.outputs)
            want = sorted(json.dumps(o, sort_keys=True) for o in self.expect_outputs)
            if got != want:
                self.flag(w, "wrong_result", "terminal outputs %s; reference %s" % (got, want), None, None, first="outputs", second="outputs")
    def on_note(self, w, note):
        d = (note["body"] or {}).get("detail") or {}
        arn, st = d.get("executionArn"), d.get("status")
        if self.expect_outputs is not None and st in TERMINAL:
            try:
                self.outputs.append(json.loads(d.get("output")) if st == "SUCCEEDED" else {"status": st, "error": d.get("error")})
            except Exception:
                self.outputs.append({"unparseable": d.get("output")})
        if st not in TERMINAL or arn not in self.expect or arn in self.seen:
            return
        self.seen.add(arn)
        ex = self.expect[arn]
        if ex.get("status") is None:
            return
        ok = st == ex["status"]
        if ok and st == "SUCCEEDED":
            try:
                ok = _loose_eq(json.loads(d.get("output")), ex.get("output"))
            except Exception:
                ok = False
        elif ok:
            errs = ex.get("errors") or [ex.get("error")]
            ok = d.get("error") in errs
        if not ok:
            self.flag(w, "wrong_result", "terminal %s output=%r error=%r; reference %s output=%r error=%r" % (
                st, d.get("output"), d.get("error"), ex.get("status"), ex.get("output"), ex.get("errors") or ex.get("error")), arn,
                None, first=ex.get("status"), second=st)
    def state(self):
        return [sorted(self.seen), sorted(json.dumps(o, sort_keys=True) for o in self.outputs)]

class MJoin(Monitor):
    """C05: join completeness / position / exactly-once iterations / MaxConcurrency bound."""
    name = "M-join"
    def __init__(self, scenario):
        super().__init__()
        self.maxc = scenario.get("maxc") or {}        # worker queue -> bound on requests in flight
        self.outstanding = {}
        self.cid_q = {}
        self.flagged = set()
        self.once = scenario.get("requests_once", False)

    def on_op(self, w, op):
        if w.step_no == 0:
            return
        if op["op"] == "publish" and op.get("routing_key") in self.maxc and op.get("exchange") == "":
            q = op["routing_key"]
            self.cid_q[op.get("correlation_id")] = q
            self.outstanding[q] = self.outstanding.get(q, 0) + 1
            if self.outstanding[q] > self.maxc[q] and q not in self.flagged:
                self.flagged.add(q)
                self.flag(w, "max_concurrency_exceeded", "%d requests in flight on %s, MaxConcurrency %d" % (self.outstanding[q], q, self.maxc[q]),
                          op.get("arn"), op.get("site"), queue=q)
        elif op["op"] == "deliver" and op.get("correlation_id") in self.cid_q and op.get("queue", "").startswith("asl_workflow_reply_to"):
            q = self.cid_q.pop(op["correlation_id"])
            self.outstanding[q] -= 1

    def at_quiescence(self, w):
        for e in w.engines():
            for arn, h in e.execution_history.items():
                h = list(h)
                rec = e.executions.get(arn)
                sm = None
                for sname, sarn in w.machines.items():
                    if rec is not None and rec.get("stateMachineArn") == sarn:
                        sm = w.sc["machines"][sname]["definition"]
                if not isinstance(sm, dict) or not isinstance(sm.get("States"), dict):
                    continue
                groups = {}
                for i, ev in enumerate(h):
                    if ev.get("type") == "MapStateEntered":
                        groups.setdefault(ev.get("stateEnteredEventDetails", {}).get("name"), []).append([])
                    if ev.get("type") == "MapIterationStarted":
                        d = ev.get("mapIterationStartedEventDetails", {})
                        groups.setdefault(d.get("name"), [[]])[-1].append(d.get("index"))
                if self.once:
                    for name, gs in groups.items():
                        for idxs in gs:
                            if sorted(idxs) != list(range(len(idxs))):
                                self.flag(w, "iteration_not_once", "Map %s started iterations %r in one entry" % (name, idxs), arn, None, state=name)
                # the state after a top-level fan-out is entered only after every event of its branches
                for name, st in sm.get("States", {}).items():
                    if not isinstance(st, dict) or st.get("Type") not in ("Parallel", "Map"):
                        continue
                    inner = set()
                    def collect(x):
                        if isinstance(x, dict):
                            for k, v in x.items():
                                if k == "States" and isinstance(v, dict):
                                    inner.update(v.keys())
                                collect(v)
                        elif isinstance(x, list):
                            for v in x:
                                collect(v)
                    collect({k: v for k, v in st.items()})
                    ex_idx = [i for i, ev in enumerate(h) if ev.get("type") == st["Type"] + "StateExited" and ev.get("stateExitedEventDetails", {}).get("name") == name]
                    if not ex_idx:
                        continue
                    j = ex_idx[0]
                    nxt = [i for i, ev in enumerate(h) if i > j and ev.get("type", "").endswith("StateEntered")]
                    late = [ev.get("type") for i, ev in enumerate(h) if i > j and (
                        (ev.get("stateEnteredEventDetails") or ev.get("stateExitedEventDetails") or {}).get("name") in inner)]
                    if late and len(ex_idx) == 1:
                        self.flag(w, "branch_event_after_join", "%s of a branch of %s logged after %sStateExited" % (late[0], name, st["Type"]), arn, None, state=name)
            break
        if self.once:
            for fname, wk in w.workers.items():
                seen = {}
                for (step, cid, text, t) in wk.requests:
                    seen[text] = seen.get(text, 0) + 1
                dup = {k: v for k, v in seen.items() if v > 1}
                if dup:
                    self.flag(w, "request_repeated", "worker %s received %r more than once" % (fname, dup), None, None, queue=fname)

    def state(self):
        return [sorted(self.outstanding.items()), sorted(self.flagged)]

# ------------------------------------------------------------------------------------------------------
class MCrash(Monitor):
    """C04: after a crash + restart every started execution still reaches a terminal status; for a crash between two
    steps the outcome equals the crash-free one, no correlation id is requested twice."""
    name = "M-crash"
    def __init__(self, scenario):
        super().__init__()
        self.expect = scenario.get("expect") or {}
        self.preserve = scenario.get("preserve_outcome", True)
        self.running = set()
        self.term = {}
        self.cids = {}
        self.flagged = set()
        self.redelivered_events = set()
        self.requested = set()
        self.orphan_dropped = set()
        self.reply_consumed = set()
        self.reply_consumed_before_crash = set()
        self.depth = {}               # message id of a delivered event -> length of its Branch stack
        self.inner_join_before_crash = False
        self.crashed = False
    def on_note(self, w, note):
        d = (note["body"] or {}).get("detail") or {}
        arn, st = d.get("executionArn"), d.get("status")
        if st == "RUNNING":
            self.running.add(arn)
        elif st in TERMINAL:
            self.term.setdefault(arn, []).append([st, d.get("output"), d.get("error")])
            self.term_step = getattr(self, "term_step", {})
            self.term_step.setdefault(arn, w.step_no)
    def on_op(self, w, op):
        if op["op"] == "crash":
            self.crashed = True
            self.reply_consumed_before_crash = set(self.reply_consumed)
        if op["op"] == "deliver" and op.get("arn") and op.get("queue", "").startswith("asl_workflow_events"):
            for conn in w.broker.connections:
                if conn.is_open:
                    for ch in conn.channels:
                        ent = ch.unacked.get(op["tag"])
                        if ent and ent[1].props.message_id == op.get("message_id"):
                            try:
                                self.depth[op.get("message_id")] = len((ent[1].meta()[1]["context"].get("State") or {}).get("Branch") or [])
                            except Exception:
                                pass
        if op["op"] == "ack" and not self.crashed and op.get("site") and "acknowledge_event_list" in str(op["site"][1]) and self.depth.get(op.get("message_id"), 0) >= 2:
            # the join of a fan-out nested in another one released its branch events: from here on its result lives in memory only
            self.inner_join_before_crash = True
        if op["op"] == "deliver" and op.get("redelivered") and op.get("arn") and op.get("queue", "").startswith("asl_workflow_events"):
            # only a redelivered *Task* state event can be "treated as already requested"
            for conn in w.broker.connections:
                if not conn.is_open:
                    continue
                for ch in conn.channels:
                    ent = ch.unacked.get(op["tag"])
                    if ent and ent[1].props.message_id == op.get("message_id"):
                        try:
                            ctx = ent[1].meta()[1]["context"]
                            for sname, sarn in w.machines.items():
                                if sarn == ctx["StateMachine"]["Id"]:
                                    dfn = w.sc["machines"][sname]["definition"]
                                    st = MTime._find(dfn, (ctx.get("State") or {}).get("Name") or dfn.get("StartAt"))
                                    if isinstance(st, dict) and st.get("Type") == "Task":
                                        self.redelivered_events.add(op.get("message_id"))
                        except Exception:
                            pass
        # which Task event is a 0 ms delegate working for: the event delivered in the step that armed the timer
        if op["op"] == "deliver" and op.get("queue", "").startswith("asl_workflow_events"):
            self.cur_event = op.get("message_id")
        elif op["op"] == "set_timeout" and str(getattr(w, "cur_kind", "")).startswith("deliver") and getattr(self, "cur_event", None):
            self.timer_event = getattr(self, "timer_event", {})
            self.timer_event[op.get("timer")] = self.cur_event
        elif op["op"] == "timer_fired":
            self.cur_event = getattr(self, "timer_event", {}).get(op.get("timer"))
        if op["op"] == "publish" and op.get("routing_key") in w.workers:
            self.requested.add((op.get("correlation_id") or "").split(".")[0])
        if op["op"] == "publish" and op.get("arn") and op.get("exchange") == "" and str(op.get("routing_key")).startswith("asl_workflow_events") \
                and str(getattr(w, "cur_kind", "")).endswith("asl_state_Task_delegate") and getattr(self, "cur_event", None):
            # a Task that launches a child execution: publishing the child's start event is "the request went out"
            try:
                nm = (json.loads(op["body"].decode("utf8"))["context"].get("State") or {}).get("Name")
            except Exception:
                nm = "?"
            if not nm:
                self.requested.add(self.cur_event)
                self.child_of = getattr(self, "child_of", {})
                self.child_of[self.cur_event] = op.get("arn")
        if op["op"] == "timer_fired" and getattr(self, "cur_event", None) in self.redelivered_events and str(op.get("kind", "")).endswith("asl_state_Task_delegate"):
            self.redeliv_delegate_step = getattr(self, "redeliv_delegate_step", {})
            self.redeliv_delegate_step.setdefault(self.cur_event, w.step_no)
        if op["op"] == "ack" and op.get("site") and "log_and_acknowledge_orphaned_responses" in op["site"][1]:
            self.orphan_dropped.add((op.get("correlation_id") or "").split(".")[0])
        elif op["op"] == "ack" and op.get("queue", "").startswith("asl_workflow_reply_to"):
            self.reply_consumed.add((op.get("correlation_id") or "").split(".")[0])
        if op["op"] == "worker_take":
            cid = op.get("correlation_id")
            self.requested.add((cid or "").split(".")[0])
            self.cids[cid] = self.cids.get(cid, 0) + 1
            if self.cids[cid] > 1 and cid not in self.flagged:
                self.flagged.add(cid)
                self.flag(w, "request_sent_again", "the request with correlation id of one task event reached worker %s %d times" % (op.get("queue"), self.cids[cid]),
                          None, None, queue=op.get("queue"))
    def at_quiescence(self, w):
        for arn in sorted(self.running | set(w.started)):
            ts = self.term.get(arn, [])
            if not ts:
                self.flag(w, "execution_lost", "started execution never reached a terminal status after the crash", arn)
                continue
            if self.preserve and arn in self.expect and self.expect[arn].get("status"):
                ex = self.expect[arn]
                # (a crash inside a handler can leave a duplicate of an event behind, whose late handling may end the execution again -
                # C02's subject and a known finding; such scenarios are judged on the first terminal outcome)
                st, out, err = ts[0] if w.sc.get("judge_first_terminal") else ts[-1]
                ok = st == ex["status"]
                if ok and st == "SUCCEEDED":
                    try:
                        ok = _loose_eq(json.loads(out), ex.get("output"))
                    except Exception:
                        ok = False
                elif ok:
                    ok = err == ex.get("error")
                if not ok:
                    # diagnosis (facts from the op log, used to tell root causes apart)
                    if self.orphan_dropped & self.requested:
                        what = "reply-to-a-sent-request-dropped-as-orphan"
                    elif err == "States.Timeout" and any(m in self.reply_consumed_before_crash for m in self.redelivered_events):
                        what = "redelivered-task-event-whose-reply-was-already-consumed"
                    elif err == "States.Timeout" and self.inner_join_before_crash:
                        what = "nested-join-result-held-only-in-memory"
                    elif err == "States.Timeout" and any(
                            m in self.requested and getattr(self, "child_of", {}).get(m) in getattr(self, "term_step", {})
                            and self.term_step[self.child_of[m]] <= getattr(self, "redeliv_delegate_step", {}).get(m, float("inf"))
                            for m in self.redelivered_events):
                        what = "sync-child-ended-before-redelivered-parent-task-re-registered"
                    elif err == "States.Timeout" and any(m not in self.requested for m in self.redelivered_events):
                        what = "redelivered-event-whose-request-was-never-sent"
                    else:
                        what = "other"
                    self.flag(w, "outcome_changed", "[%s] " % what + "after crash+restart the execution ended %s output=%r error=%r; without the crash %s output=%r error=%r" % (
                        st, out, err, ex["status"], ex.get("output"), ex.get("error")), arn, None, first=ex["status"], second=st, error=str(err), what=what)
    def state(self):
        return [sorted(self.running), sorted(self.term.items()), sorted(self.cids.items())]

# ------------------------------------------------------------------------------------------------------
class MTime(Monitor):
    """C08 firing clauses on the virtual clock: a Wait exits at max(target, dispatch instant) and never before its target;
    a Task not completed by entry+TimeoutSeconds fails with States.Timeout at that instant and is never completed later;
    the execution deadline fails the execution at StartTime+TimeoutSeconds and not before; a superseded task timer never fires."""
    name = "M-time"
    TOL = 1e-6
    def __init__(self, scenario):
        super().__init__()
        self.waits = {}      # (arn, state) -> [target, dispatch time]
        self.tasks = {}      # (arn, state) -> deadline
        self.execs = {}      # arn -> deadline
        self.hist = {}
        self.flagged = set()
        self.blocking_late = set()

    def _defs(self, w, sm_arn_):
        for sname, sarn in w.machines.items():
            if sarn == sm_arn_:
                return w.sc["machines"][sname]["definition"]
        return None

    @staticmethod
    def _find(defn, name):
        if isinstance(defn, dict):
            sts = defn.get("States")
            if isinstance(sts, dict) and name in sts:
                return sts[name]
            for v in defn.values():
                r = MTime._find(v, name)
                if r is not None:
                    return r
        elif isinstance(defn, list):
            for v in defn:
                r = MTime._find(v, name)
                if r is not None:
                    return r
        return None

    def on_op(self, w, op):
        from ref import rfc3339, jsonpath as JP
        if op["op"] == "deliver" and op.get("arn") and op.get("queue", "").startswith("asl_workflow_events"):
            # find the message just handed over
            for conn in w.broker.connections:
                if not conn.is_open:
                    continue
                for ch in conn.channels:
                    ent = ch.unacked.get(op["tag"])
                    if ent and ent[1].props.message_id == op.get("message_id"):
                        obj = ent[1].meta()[1]
                        self._on_event(w, obj, rfc3339, JP)
        elif op["op"] == "publish" and op.get("exchange") == "" and str(op.get("routing_key")).startswith("asl_workflow_events") and op.get("connection") != "env" and w.step_no > 0:
            # a state is entered when the transition to it is published: its EnteredTime (from which Seconds and TimeoutSeconds
            # are measured) must be that instant, or that instant plus the retry delay for a republished retry
            try:
                st = json.loads(op["body"].decode("utf8"))["context"]["State"]
                reentry = bool(st.get("Branch")) and isinstance(st["Branch"][-1], dict) and "Range" in st["Branch"][-1] and "Index" not in st["Branch"][-1] \
                    and str((op.get("site") or ["", ""])[1]).endswith("asl_state_collect_results")
                # (a Map state re-entered for its next MaxConcurrency batch is still the same entry: it keeps its EnteredTime)
                if st.get("Name") and not reentry:
                    ent = float(rfc3339.parse(st["EnteredTime"]))
                    now = op.get("now")
                    ok = abs(ent - now) <= self.TOL or ("RetryTimeout" in st and abs(ent - now - st["RetryTimeout"] / 1000.0) <= self.TOL)
                    if not ok and ("entered", st.get("Name")) not in self.flagged:
                        self.flagged.add(("entered", st.get("Name")))
                        self.flag(w, "entered_time_wrong", "the event entering state %r was published at +%.6f but carries EnteredTime +%.6f" % (
                            st.get("Name"), now - w.clock.__class__().now, ent - w.clock.__class__().now), op.get("arn"), op.get("site"), state=st.get("Name"))
            except (KeyError, ValueError, TypeError, AttributeError):
                pass
        elif op["op"] == "timer_fired":
            kind = op.get("kind", "")
            self.last_timer_delay = op.get("delay")
            if kind.endswith("asl_service_rpcmessage.<locals>.on_timeout") or kind.endswith("asl_service_states_startExecution.<locals>.on_timeout"):
                from .fingerprint import _closure_info
                cid = _closure_info(op.get("callback")).get("correlation_id")
                for inst in w.live_instances():
                    if inst.conn.name == op.get("connection"):
                        if cid not in inst.engine.task_dispatcher.pending_requests and ("sup", cid) not in self.flagged:
                            self.flagged.add(("sup", cid))
                            self.flag(w, "superseded_timer_fired", "the time-out timer of a task that is no longer pending fired", None, None, timer="on_timeout")

    def _on_event(self, w, obj, rfc3339, JP):
        try:
            ctx = obj["context"]
            arn = ctx["Execution"]["Id"]
            name = ctx["State"].get("Name")
            defn = self._defs(w, ctx["StateMachine"]["Id"])
            now = w.clock.now
            if defn is None:
                return
            start = float(rfc3339.parse(ctx["Execution"]["StartTime"]))
            if "TimeoutSeconds" in defn:
                self.execs.setdefault(arn, start + defn["TimeoutSeconds"])
            if not name:
                return
            st = self._find(defn, name)
            if not isinstance(st, dict):
                return
            entered = float(rfc3339.parse(ctx["State"]["EnteredTime"]))
            if st.get("Type") in ("Wait", "Task") and arn in self.execs and now > self.execs[arn] + self.TOL:
                self.blocking_late.add(arn)
            if st.get("Type") == "Wait":
                data = obj.get("data")
                try:
                    inp = JP.get(data, st.get("InputPath", "$"))
                except Exception:
                    return
                target = None
                if "Seconds" in st:
                    target = entered + st["Seconds"]
                elif "SecondsPath" in st:
                    target = entered + JP.get(inp, st["SecondsPath"])
                elif "Timestamp" in st:
                    target = float(rfc3339.parse(st["Timestamp"]))
                elif "TimestampPath" in st:
                    target = float(rfc3339.parse(JP.get(inp, st["TimestampPath"])))
                if target is not None:
                    self.waits[(arn, name)] = [target, now]
            elif st.get("Type") == "Task" and "TimeoutSeconds" in st:
                self.tasks[(arn, name)] = entered + st["TimeoutSeconds"]
        except Exception:
            return

    def after_step(self, w, label):
        for e in w.engines():
            for arn, h in e.execution_history.items():
                n0 = self.hist.get(arn, 0)
                hl = list(h)
                for ev in hl[n0:]:
                    t = ev.get("type"); ts = ev.get("timestamp")
                    if t == "WaitStateExited":
                        nm = ev["stateExitedEventDetails"]["name"]
                        ent = self.waits.get((arn, nm))
                        if ent:
                            target, disp = ent
                            if ts < target - self.TOL:
                                self.flag(w, "wait_early", "Wait %s exited at +%.6f, %.6f s before its target instant" % (nm, ts - disp, target - ts), arn, None, state=nm)
                            elif abs(ts - max(target, disp)) > self.TOL:
                                self.flag(w, "wait_late", "Wait %s exited %.6f s after max(target, dispatch)" % (nm, ts - max(target, disp)), arn, None, state=nm)
                    elif t in ("LambdaFunctionTimedOut", "TaskTimedOut"):
                        cur = [k for k in self.tasks if k[0] == arn]
                        ok = any(abs(ts - self.tasks[k]) <= self.TOL for k in cur)
                        # a timer armed when the deadline had already passed (late delivery) fires at once: late but never early
                        if not ok and getattr(self, "last_timer_delay", None) == 0 and all(ts >= self.tasks[k] - self.TOL for k in cur):
                            ok = True
                        if cur and not ok:
                            self.flag(w, "task_timeout_instant", "%s at %r, task deadline(s) %r" % (t, ts, [self.tasks[k] for k in cur]), arn, None)
                    elif t in ("LambdaFunctionSucceeded", "TaskSucceeded"):
                        for k in [k for k in self.tasks if k[0] == arn]:
                            pass
                    elif t == "TaskStateExited":
                        nm = ev["stateExitedEventDetails"]["name"]
                        dl = self.tasks.get((arn, nm))
                        if dl is not None and ts > dl + self.TOL and not any(x.get("type") in ("LambdaFunctionTimedOut", "TaskTimedOut") for x in hl):
                            self.flag(w, "task_completed_after_deadline", "Task %s completed %.6f s after entry+TimeoutSeconds" % (nm, ts - dl), arn, None, state=nm)
                self.hist[arn] = len(hl)
            break

    def on_note(self, w, note):
        d = (note["body"] or {}).get("detail") or {}
        arn, st = d.get("executionArn"), d.get("status")
        if st in TERMINAL and arn in self.execs:
            dl = self.execs[arn]
            t = note["time"]
            cause = d.get("cause") or ""
            exec_timeout = d.get("error") == "States.Timeout" and "Execution ran for longer" in cause
            if exec_timeout and t < dl - self.TOL:
                self.flag(w, "execution_timeout_early", "execution timed out %.6f s before StartTime+TimeoutSeconds" % (dl - t), arn, None)
            if t > dl + self.TOL and not (d.get("error") == "States.Timeout"):
                what = "a-Task-or-Wait-was-entered-after-the-deadline" if arn in self.blocking_late else "only-non-blocking-states-ran-late"
                self.flag(w, "execution_outlived_deadline", "execution ended %s %.6f s after StartTime+TimeoutSeconds (%s)" % (st, t - dl, what), arn, None, first=st, what=what)
            if exec_timeout and t > dl + 61 + self.TOL:
                self.flag(w, "execution_timeout_late", "execution timed out %.6f s after its deadline" % (t - dl), arn, None)

    def state(self):
        return [sorted((list(k), v) for k, v in self.waits.items()), sorted((list(k), v) for k, v in self.tasks.items()), sorted(map(str, self.flagged))]

# ------------------------------------------------------------------------------------------------------
class MChild(Monitor):
    """C15: child executions and task-token callbacks complete exactly their launching task."""
    name = "M-child"
    DOC_FIELDS = {"ExecutionArn", "Input", "Name", "Output", "StartDate", "StateMachineArn", "Status", "StopDate"}
    def __init__(self, scenario):
        super().__init__()
        self.sc = scenario
        self.form = scenario.get("child_form")
        self.child = scenario.get("child_arn")
        self.parent = scenario.get("parent_arn")
        self.child_term = None
        self.child_running = False
        self.child_input = {"from": "parent", "n": 1}
        self.parent_task_done = False
        self.hist = 0
        self.flagged = set()
        self.timeout_step = None
        self.api_seen = 0
        self.valid_cb_steps = []

    def _flag(self, w, kind, detail, **extra):
        if kind in self.flagged:
            return
        self.flagged.add(kind)
        self.flag(w, kind, detail, self.parent, None, **extra)

    def on_note(self, w, note):
        d = (note["body"] or {}).get("detail") or {}
        arn, st = d.get("executionArn"), d.get("status")
        if arn == self.child or (self.form == "sync-map" and arn and ":execution:c:" in arn):
            if st == "RUNNING":
                self.child_running = True
            elif st in TERMINAL and arn == self.child:
                self.child_term = d
        if arn == self.parent and st in TERMINAL:
            self._parent_terminal(w, d)

    def after_step(self, w, label):
        # API answers to SendTask* calls
        while self.api_seen < len(w.api_log):
            a = w.api_log[self.api_seen]; self.api_seen += 1
            tag = a.get("tag")
            if tag in ("forged", "truncated", "notbase64"):
                if not (a["status"] == 400 and a["type"] == "InvalidToken"):
                    self._flag(w, "bad_token_accepted", "%s with a %s token answered HTTP %s %s, expected 400 InvalidToken" % (a["action"], tag, a["status"], a["type"]), what=tag)
            elif tag == "malformed":
                if not (a["status"] == 400 and a["type"] in ("InvalidToken", "MissingRequiredParameter", "ValidationException", "ValidationError", "InvalidOutput")):
                    self._flag(w, "bad_token_accepted", "%s with a malformed (%s) token or argument answered HTTP %s %s, expected a 400 validation error" % (a["action"], a.get("mangle"), a["status"], a["type"]), what="malformed")
            elif tag in ("valid", "valid-failure"):
                self.valid_cb_steps.append(a["step"])
                if a["status"] != 200:
                    self._flag(w, "valid_token_refused", "%s with the task's token answered HTTP %s %s" % (a["action"], a["status"], a["type"]))
        engs = w.engines()
        if not engs or self.parent is None:
            return
        h = engs[0].execution_history.get(self.parent)
        if h is None:
            return
        hl = list(h)
        new = hl[self.hist:]
        self.hist = len(hl)
        for ev in new:
            t = ev.get("type")
            if t in ("TaskSucceeded", "TaskFailed") and self.form in ("sync", "sync2", "sdk", "sync-nested") and not self.parent_task_done:
                self.parent_task_done = True
                child_rec = w.executions().get(self.child)
                child_done = self.child_term is not None or (child_rec is not None and child_rec.get("status") in TERMINAL)
                if not child_done:
                    self._flag(w, "parent_completed_before_child", "the launching task completed (%s) while the child execution is not terminal" % t)
            if t == "TaskTimedOut" and self.form == "sync-timeout":
                self.timeout_step = w.step_no
        if self.form in ("sync-timeout", "sync-terminated"):
            td = engs[0].task_dispatcher
            cur = set(k for k, v in td.cancellers.items() if v.get("Execution") == self.child) | set(k for k, v in td.pending_requests.items() if v[1] == self.child)
            # (the parent is also gone when its *execution* has ended - e.g. by the machine-level time-out - without a TaskTimedOut event)
            gone = self.timeout_step is not None or (self.form in ("sync-terminated", "sync-timeout") and self._parent_failed(w))
            if gone and not getattr(self, "gone_seen", False):
                self.gone_seen = True
                # what the child was blocked on when the parent task timed out / was terminated must have been cancelled in that very step
                still = cur & getattr(self, "prev_handles", set())
                if still:
                    self._flag(w, "child_not_cancelled", "the parent task timed out / was terminated but %d task/wait handle(s) the child was blocked on at that moment are still there" % len(still))
            self.prev_handles = cur

    def _parent_failed(self, w):
        return any(s in TERMINAL for s in [self._pst(w)])

    def _pst(self, w):
        rec = w.executions().get(self.parent) or {}
        return rec.get("status")

    def on_op(self, w, op):
        if op["op"] == "publish" and op.get("routing_key") in w.workers and self.form in ("sync-timeout",) and self.timeout_step is not None:
            cid = (op.get("correlation_id") or "")
            self._flag(w, "child_request_after_parent_timeout", "an RPC request to %s was issued after the parent task had timed out" % op.get("routing_key"), queue=op.get("routing_key"))

    def _parent_terminal(self, w, d):
        st = d.get("status")
        out = None
        try:
            out = json.loads(d.get("output")) if d.get("output") is not None else None
        except Exception:
            pass
        f = self.form
        if f in ("start", "start-mixed", "sync", "sync2", "sdk", "sync-unnamed", "sync2-unnamed", "start-unnamed") and st == "SUCCEEDED" and isinstance(out, dict):
            # frame law: the launching Task places its result (or a Catcher the Error Output) into its raw input, which is otherwise untouched
            try:
                pin = [x["input"] for x in self.sc["starts"] if x.get("name") == "p1"][0]
            except Exception:
                pin = None
            rest = {k: v for k, v in out.items() if k not in ("child", "err")}
            if pin is not None and json.dumps(rest, sort_keys=True) != json.dumps(pin, sort_keys=True):
                self._flag(w, "parent_input_changed", "the parent's output apart from the placed result is %r, its input was %r" % (rest, pin), what="frame")
        if f in ("sync2-unnamed", "start-unnamed") and (st != "SUCCEEDED" or not isinstance((out or {}).get("child") if isinstance(out, dict) else None, dict)):
            self._flag(w, "unnamed_launch_result", "parent ended %s with output %r" % (st, out))
        if f == "start":
            c = (out or {}).get("child") if isinstance(out, dict) else None
            if st != "SUCCEEDED" or not isinstance(c, dict) or c.get("executionArn") != self.child or not isinstance(c.get("startDate"), (int, float)) or set(c) != {"executionArn", "startDate"}:
                self._flag(w, "async_launch_result", "startExecution task result %r" % (c,))
        elif f in ("sync", "sync2", "sdk", "sync-nested"):
            fails = "fails" in self.sc["name"]
            if not fails:
                src = out
                if f == "sync-nested" and isinstance(out, list):
                    src = out[0]
                c = (src or {}).get("child") if isinstance(src, dict) else None
                if st != "SUCCEEDED" or not isinstance(c, dict):
                    self._flag(w, "sync_result", "parent ended %s with child result %r" % (st, c))
                    return
                missing = self.DOC_FIELDS - set(c)
                extra = set(c) - self.DOC_FIELDS - {"Error", "Cause"}
                if missing or extra:
                    self._flag(w, "sync_result_fields", "child result has fields %s: missing %s, undocumented %s" % (sorted(c), sorted(missing), sorted(extra)), what="fields")
                    return
                want_out = {"from": "parent", "n": 1, "z": "done"} if True else None
                want_out = {"c": 1, "z": "done"}
                as_json = self.sc["name"].startswith("child-sync2")
                try:
                    o = c["Output"] if as_json else json.loads(c["Output"])
                    i = c["Input"] if as_json else json.loads(c["Input"])
                    typed = (isinstance(c["Output"], str) != as_json) and (isinstance(c["Input"], str) != as_json)
                except Exception:
                    o = i = None; typed = False
                if not typed or o != want_out or i != self.child_input or c["ExecutionArn"] != self.child or c["Status"] != "SUCCEEDED" or c["Name"] != "c1":
                    self._flag(w, "sync_result_values", "child result %r" % (c,), what="values")
            else:
                caught = "caught" in self.sc["name"]
                if caught:
                    e = (out or {}).get("err") if isinstance(out, dict) else None
                    if st != "SUCCEEDED" or not isinstance(e, dict) or e.get("Error") != "States.TaskFailed" or "E.child" not in str(e.get("Cause")):
                        self._flag(w, "sync_failure_result", "caught child failure delivered as %r (status %s)" % (e, st))
                elif st != "FAILED" or d.get("error") != "States.TaskFailed" or "E.child" not in str(d.get("cause")):
                    self._flag(w, "sync_failure_result", "parent ended %s error=%r cause=%r after the child failed with E.child" % (st, d.get("error"), str(d.get("cause"))[:120]))
        elif f == "invalid":
            if st != "FAILED" or self.child_running:
                self._flag(w, "invalid_combination_ran", "parent ended %s (error %r), child started: %s" % (st, d.get("error"), self.child_running))
            elif d.get("error") in ("States.Timeout", "States.HeartbeatTimeout") or w.clock.now - 1900000000.0 >= 1.0:
                # the launch is refused when it is attempted: the task must fail there and then, not sit until some time-out ends it
                self._flag(w, "invalid_combination_blocked", "parent failed only after %.0f s with %r: the refused launch left the task waiting" % (w.clock.now - 1900000000.0, d.get("error")))
        elif f == "token":
            allowed = self.sc.get("allowed")
            cb = out.get("cb") if isinstance(out, dict) else None
            got = [st, cb if st == "SUCCEEDED" else d.get("error")]
            if allowed is not None and got not in allowed:
                self._flag(w, "callback_result", "task completed as %r, allowed %r" % (got, allowed), what=str(got[0]))
            if st == "SUCCEEDED" and isinstance(out, dict) and "cb" in out and not self.valid_cb_steps and not self.sc.get("completes_without_callback"):
                self._flag(w, "completed_without_callback", "the waitForTaskToken task completed although no valid callback had been sent")

    def state(self):
        return [self.child_running, self.child_term is not None, self.parent_task_done, self.timeout_step is not None, sorted(self.flagged), len(self.valid_cb_steps)]

# ------------------------------------------------------------------------------------------------------
class MAckOne(Monitor):
    """An acknowledgement settles the delivery it names and no other (a poison event acknowledged with basic_ack(multiple) also settles
    what other executions hold unacknowledged).  Looks at broker operations only, never inside a definition."""
    name = "M-ackone"
    def __init__(self):
        super().__init__()
        self.seen = False
    def on_op(self, w, op):
        if op["op"] == "ack_multiple" and w.step_no > 0 and not self.seen:
            self.seen = True
            self.flag(w, "ack_covers_other_deliveries", "one acknowledgement (delivery_tag=%s, multiple) settled %d deliveries on %s" % (
                op.get("delivery_tag"), len(op.get("tags") or []), ", ".join(op.get("queues") or [])), None, op.get("site"))
    def state(self):
        return self.seen

# ------------------------------------------------------------------------------------------------------
class MRoute(Monitor):
    """C19 affinity: start events travel through the shared queue, every later event of an execution reaches the instance
    that consumed its start; RPC requests carry that instance's reply queue and the task event's id; replies return there."""
    name = "M-route"
    def __init__(self, scenario):
        super().__init__()
        self.owner = {}          # arn -> connection name that consumed its first event
        self.unacked_events = {} # connection name -> {message id: arn}
        self.flagged = set()
        self.shared = "asl_workflow_events" + ("-qq" if scenario.get("queue_type") == "quorum" else "")
        self.suffix = "-qq" if scenario.get("queue_type") == "quorum" else ""
        self.requests = {}       # correlation id -> connection name that issued it
        self.event_state = {}    # event message id -> (state machine ARN, state name)
        self.sync_children = set()
        self.child_form = scenario.get("child_form")
        # state machines that some definition of the scenario launches asynchronously (states:startExecution without .sync /
        # .waitForTaskToken) and never synchronously: their start events are ordinary start events
        asyn, syn = set(), set()
        def walk(x):
            if isinstance(x, dict):
                res = x.get("Resource")
                if x.get("Type") == "Task" and isinstance(res, str) and ":states:startExecution" in res or (isinstance(res, str) and "startSyncExecution" in res):
                    tgt = (x.get("Parameters") or {}).get("StateMachineArn")
                    (asyn if res.endswith(":states:startExecution") else syn).add(tgt)
                for v in x.values():
                    walk(v)
            elif isinstance(x, list):
                for v in x:
                    walk(v)
        walk(scenario.get("machines", {}))
        self.async_machines = asyn - syn

    def _flag(self, w, key, kind, detail, arn=None, site=None, **extra):
        if key in self.flagged:
            return
        self.flagged.add(key)
        self.flag(w, kind, detail, arn, site, **extra)

    def _inst_id(self, w, conn_name):
        for inst in w.instances:
            if inst.conn is not None and inst.conn.name == conn_name:
                return inst.config["event_queue"]["instance_id"]
        return None

    def _function_of(self, w, event_id):
        """The worker queue the Task state of this event names (None when that cannot be told statically)."""
        sm, name = self.event_state.get(event_id, (None, None))
        if not sm or not name:
            return None
        d = None
        for mname, m in (w.sc.get("machines") or {}).items():
            if str(sm).endswith(":stateMachine:" + mname):
                d = m.get("definition")
        found = []
        def walk(x):
            if isinstance(x, dict):
                sts = x.get("States")
                if isinstance(sts, dict) and isinstance(sts.get(name), dict):
                    found.append(sts[name])
                for v in x.values():
                    walk(v)
            elif isinstance(x, list):
                for v in x:
                    walk(v)
        walk(d)
        if len(found) != 1 or found[0].get("Type") != "Task":
            return None
        res = found[0].get("Resource")
        if isinstance(res, str) and res.startswith("arn:aws:rpcmessage:"):
            return res.rsplit(":", 1)[-1]
        if isinstance(res, str) and ":rpcmessage:invoke" in res:
            fn = (found[0].get("Parameters") or {}).get("FunctionName")
            if isinstance(fn, str) and fn.startswith("arn:aws:rpcmessage:"):
                return fn.rsplit(":", 1)[-1]
        return None

    def on_op(self, w, op):
        k = op["op"]
        if k == "deliver" and op.get("arn"):
            q, conn, arn = op["queue"], op["connection"], op["arn"]
            if q.startswith("asl_workflow_events"):
                if arn not in self.owner:
                    self.owner[arn] = conn
                elif self.owner[arn] != conn:
                    self._flag(w, ("owner", arn), "event_delivered_to_other_instance", "an event of an execution started on %s was delivered to %s (queue %s)" % (self.owner[arn], conn, q), arn, None, queue=q.replace(self.suffix, ""))
                if q != self.shared:
                    iid = self._inst_id(w, conn)
                    if q != self.shared + "-" + str(iid):
                        self._flag(w, ("queue", q), "instance_queue_consumed_by_other", "queue %s consumed by instance %s" % (q, iid), arn, None)
                self.unacked_events.setdefault(conn, {})[op.get("message_id")] = arn
        elif k == "publish" and w.step_no > 0:
            rk = op.get("routing_key")
            conn = op.get("connection")
            if op.get("arn") and op.get("exchange") == "" and str(rk).startswith("asl_workflow_events"):
                try:
                    ctx = json.loads(op["body"].decode("utf8"))["context"]
                    name = (ctx.get("State") or {}).get("Name")
                    self.event_state[op.get("message_id")] = ((ctx.get("StateMachine") or {}).get("Id"), name)
                except Exception:
                    name = None
                arn = op["arn"]
                if rk == self.shared:
                    if name:
                        self._flag(w, ("shared", arn), "transition_event_on_shared_queue", "an event for state %r was published to the shared queue" % name, arn, op.get("site"), state=name)
                    elif conn != "env" and str(w.cur_kind).startswith("timer") and ":execution:c:" in str(arn) and self.child_form in ("sync", "sync2", "sdk", "sync-timeout", "sync-nested", "sync-terminated", "sync-map"):
                        # the launch of a synchronous child (.sync, .sync:2, startSyncExecution) must stay with the launching instance
                        self._flag(w, ("synclaunch", arn), "sync_child_launch_on_shared_queue", "instance %s launched a synchronous child execution through the shared queue" % self._inst_id(w, conn), arn, op.get("site"))
                else:
                    iid = self._inst_id(w, conn)
                    if conn != "env" and rk != self.shared + "-" + str(iid):
                        self._flag(w, ("inst", arn), "event_published_to_other_instance", "instance %s published an event to %s" % (iid, rk), arn, op.get("site"))
                    try:
                        sm_of_event = ctx["StateMachine"]["Id"]
                    except Exception:
                        sm_of_event = None
                    if not name and conn != "env" and (str(w.cur_kind).startswith("api") or arn in w.started):
                        # (StartExecution hands its publish to the engine's loop: it can leave in a later 'call' step)
                        self._flag(w, ("apiinst", arn), "start_event_not_on_shared_queue", "StartExecution put the start event on %s" % rk, arn, op.get("site"))
                    elif not name and conn != "env" and sm_of_event in self.async_machines:
                        self._flag(w, ("asynclaunch", arn), "async_child_launch_on_instance_queue", "an asynchronous child execution (startExecution) was launched through %s instead of the shared queue" % rk, arn, op.get("site"))
                    elif not name and conn != "env":
                        self.sync_children.add(arn)
                        if self.child_form == "start" and ":execution:c:" in str(arn):
                            self._flag(w, ("asynclaunch", arn), "async_child_launch_on_instance_queue", "an asynchronous child execution (startExecution) was launched through %s instead of the shared queue" % rk, arn, op.get("site"))
                    if not name and conn == "env":
                        self._flag(w, ("envinst", arn), "start_event_not_on_shared_queue", "a start event was put on %s" % rk, arn, None)
                if not name and rk != self.shared and conn != "env" and arn not in self.owner:
                    # a synchronous child launch stays with the launching instance
                    self.owner[arn] = conn
            elif rk in w.workers and op.get("exchange") == "":
                iid = self._inst_id(w, conn)
                want_reply = "asl_workflow_reply_to" + self.suffix + "-" + str(iid)
                if op.get("reply_to") != want_reply:
                    self._flag(w, ("reply", rk), "wrong_reply_to", "request to %s carries reply_to %r, expected %r" % (rk, op.get("reply_to"), want_reply), None, op.get("site"), queue=rk)
                cid = (op.get("correlation_id") or "")
                base = cid.split(".")[0]
                if base not in self.unacked_events.get(conn, {}):
                    self._flag(w, ("cid", rk), "wrong_correlation_id", "request to %s carries correlation id %r which is not the id of a task event held by %s" % (rk, cid, conn), None, op.get("site"), queue=rk)
                want_fn = self._function_of(w, base)
                if want_fn is not None and want_fn != rk:
                    self._flag(w, ("fn", rk), "request_to_wrong_function", "the request of the task event %s (function %s) was published to %s" % (base, want_fn, rk), None, op.get("site"), queue=rk)
                if not op.get("mandatory"):
                    self._flag(w, ("mand", rk), "request_not_mandatory", "request to %s is not published as mandatory" % rk, None, op.get("site"), queue=rk)
                self.requests[cid] = conn
        elif k == "deliver" and op.get("queue", "").startswith("asl_workflow_reply_to"):
            cid = op.get("correlation_id")
            conn = op["connection"]
            if cid in self.requests and self.requests[cid] != conn:
                self._flag(w, ("rdel", cid), "reply_delivered_to_other_instance", "the reply to a request of %s was delivered to %s" % (self.requests[cid], conn), None, None)
        elif k == "ack" and op.get("queue", "").startswith("asl_workflow_events"):
            self.unacked_events.get(op.get("connection"), {}).pop(op.get("message_id"), None)
        elif k == "ack_multiple" and w.step_no > 0:
            # "acknowledging a message acknowledges that delivery and no other"
            self._flag(w, ("ackmulti", op.get("connection")), "ack_covers_other_deliveries", "one acknowledgement (delivery_tag=%s, multiple) acknowledged %d deliveries on %s" % (
                op.get("delivery_tag"), len(op.get("tags") or []), ", ".join(op.get("queues") or [])), None, op.get("site"))

    def state(self):
        return [sorted(self.owner.items()), sorted(map(str, self.flagged))]
