"""
Scenario corpus builders shared by the engine-level checks.  A scenario is a JSON-able dict (see world.World).
Every scenario carries a `family` string made of structural facts only; violation signatures use it.
"""
import copy, itertools
from .world import fn_arn, sm_arn, exec_arn

def Task(fn, **kw):
    s = {"Type": "Task", "Resource": fn_arn(fn)}
    s.update(kw)
    return s

def Pass(**kw):
    s = {"Type": "Pass"}
    s.update(kw)
    return s

def Wait(seconds=None, **kw):
    s = {"Type": "Wait"}
    if seconds is not None:
        s["Seconds"] = seconds
    s.update(kw)
    return s

def Fail(error="E.fail", cause="because"):
    return {"Type": "Fail", "Error": error, "Cause": cause}

def Succeed(**kw):
    s = {"Type": "Succeed"}
    s.update(kw)
    return s

def Choice(choices, default=None, **kw):
    s = {"Type": "Choice", "Choices": choices}
    if default:
        s["Default"] = default
    s.update(kw)
    return s

def chain(*states):
    """chain(("A", state), ("B", state)) -> {"StartAt": "A", "States": {...}} linking Next/End where absent."""
    out = {}
    for i, (name, st) in enumerate(states):
        st = copy.deepcopy(st)
        if st["Type"] not in ("Fail", "Succeed", "Choice") and "Next" not in st and "End" not in st:
            if i + 1 < len(states):
                st["Next"] = states[i + 1][0]
            else:
                st["End"] = True
        out[name] = st
    return {"StartAt": states[0][0], "States": out}

def Parallel(branches, **kw):
    s = {"Type": "Parallel", "Branches": branches}
    s.update(kw)
    return s

def Map(processor, legacy=False, **kw):
    s = {"Type": "Map"}
    s["Iterator" if legacy else "ItemProcessor"] = processor
    s.update(kw)
    return s

def scenario(name, definition, workers=None, input=None, family="", typ="STANDARD", **kw):
    sc = {
        "name": name, "family": family or name,
        "machines": {"m": {"definition": definition, "type": typ}},
        "workers": workers or {},
        "starts": [{"machine": "m", "name": "e1", "input": {} if input is None else input}],
    }
    sc.update(kw)
    return sc

OK = lambda v: [["ok", v]]
ERR = lambda e="E1", m="boom": [["err", e, m]]
NONE = [["none"]]

CATCH_ALL = [{"ErrorEquals": ["States.ALL"], "Next": "Z", "ResultPath": "$.err"}]

def handler_coverage_corpus():
    """One scenario per handler / ack site (C03), all run on the canonical schedule and explored closed."""
    out = []
    w1 = {"f1": {"*": OK({"r": 1})}, "f2": {"*": OK(2)}}
    Z = ("Z", Pass())
    add = lambda name, d, **kw: out.append(scenario(name, d, family=name, **kw))
    add("pass-next-end", chain(("A", Pass(Result=1, ResultPath="$.a")), Z))
    add("pass-end", chain(("A", Pass())))
    add("pass-badpath", chain(("A", Pass(InputPath="$.missing")), Z))
    add("pass-badresultpath", chain(("A", Pass(Result=1, ResultPath="$.a.b")), Z), input={"a": 5})
    add("pass-intrinsic-fail", chain(("A", Pass(Parameters={"x.$": "States.Nope(1)"})), Z))
    add("pass-missing-next", {"StartAt": "A", "States": {"A": {"Type": "Pass"}}})
    add("task-next", chain(("A", Task("f1")), Z), workers=w1)
    add("task-end", chain(("A", Task("f1"))), workers=w1)
    add("task-error", chain(("A", Task("f1")), Z), workers={"f1": {"*": ERR()}})
    add("task-error-caught", chain(("A", Task("f1", Catch=CATCH_ALL)), Z), workers={"f1": {"*": ERR()}})
    add("task-retry-then-ok", chain(("A", Task("f1", Retry=[{"ErrorEquals": ["E1"], "IntervalSeconds": 1, "MaxAttempts": 2}])), Z),
        workers={"f1": {"*": [["err", "E1", "x"], ["ok", 3]]}})
    add("task-timeout", chain(("A", Task("f1", TimeoutSeconds=5)), Z), workers={"f1": {"*": NONE}})
    add("task-unroutable", chain(("A", Task("nosuchfn")), Z))
    add("task-badparams", chain(("A", Task("f1", Parameters={"x.$": "$.missing"})), Z), workers=w1)
    add("task-resultselector-fail", chain(("A", Task("f1", ResultSelector={"x.$": "$.missing"})), Z), workers=w1)
    add("task-invalid-json-reply", chain(("A", Task("f1")), Z), workers={"f1": {"*": [["raw", "{not json"]]}})
    add("task-invalid-service", chain(("A", {"Type": "Task", "Resource": "arn:aws:nosuch:local::function:x"}), Z))
    add("choice-match", chain(("A", Choice([{"Variable": "$.x", "NumericEquals": 1, "Next": "Z"}], default="Y")), ("Y", Pass(End=True)), Z), input={"x": 1})
    add("choice-default", chain(("A", Choice([{"Variable": "$.x", "NumericEquals": 2, "Next": "Z"}], default="Y")), ("Y", Pass(End=True)), Z), input={"x": 1})
    add("choice-nomatch", chain(("A", Choice([{"Variable": "$.x", "NumericEquals": 2, "Next": "Z"}])), Z), input={"x": 1})
    add("choice-badinput", chain(("A", Choice([{"Variable": "$.x", "NumericEquals": 2, "Next": "Z"}], InputPath="$.nope")), Z), input={"x": 1})
    add("wait-next", chain(("A", Wait(2)), Z))
    add("wait-end", chain(("A", Wait(2))))
    add("wait-badpath", chain(("A", Wait(SecondsPath="$.nope")), Z))
    add("succeed", chain(("A", Succeed())))
    add("fail", chain(("A", Fail())))
    br = lambda n, f: chain((n, Task(f)))
    add("parallel-next", chain(("P", Parallel([br("A", "f1"), br("B", "f2")])), Z), workers=w1)
    add("parallel-end", chain(("P", Parallel([br("A", "f1"), br("B", "f2")]))), workers=w1)
    add("parallel-pass-branches", chain(("P", Parallel([chain(("A", Pass(Result=1))), chain(("B", Pass(Result=2)))])), Z))
    add("parallel-fail-branch", chain(("P", Parallel([chain(("A", Fail())), chain(("B", Pass(Result=2)))])), Z))
    add("parallel-badparams", chain(("P", Parallel([br("A", "f1")], Parameters={"x.$": "$.missing"})), Z), workers=w1)
    add("parallel-resultpath-fail", chain(("P", Parallel([chain(("A", Pass(Result=1)))], ResultPath="$.a.b")), Z), input={"a": 5})
    add("parallel-task-error", chain(("P", Parallel([br("A", "f1"), br("B", "f2")])), Z), workers={"f1": {"*": ERR()}, "f2": {"*": OK(2)}})
    add("parallel-retry", chain(("P", Parallel([br("A", "f1"), br("B", "f2")], Retry=[{"ErrorEquals": ["E1"], "IntervalSeconds": 1, "MaxAttempts": 1}])), Z),
        workers={"f1": {"*": [["err", "E1", "x"], ["ok", 1]]}, "f2": {"*": OK(2)}})
    it = chain(("I", Task("f1")))
    add("map-next", chain(("M", Map(it)), Z), workers={"f1": {"*": [["echo"]]}}, input=[1, 2])
    add("map-end", chain(("M", Map(it))), workers={"f1": {"*": [["echo"]]}}, input=[1, 2])
    add("map-empty", chain(("M", Map(it)), Z), workers=w1, input=[])
    add("map-empty-end", chain(("M", Map(it))), workers=w1, input=[])
    add("map-maxconc", chain(("M", Map(it, MaxConcurrency=1)), Z), workers={"f1": {"*": [["echo"]]}}, input=[1, 2, 3])
    add("map-itemspath", chain(("M", Map(chain(("I", Pass())), ItemsPath="$.items", ItemSelector={"v.$": "$$.Map.Item.Value", "i.$": "$$.Map.Item.Index"})), Z), input={"items": [5, 6]})
    add("map-baditems", chain(("M", Map(it, ItemsPath="$.nope")), Z), workers=w1, input={})
    add("map-item-error", chain(("M", Map(it)), Z), workers={"f1": {"1": ERR(), "*": [["echo"]]}}, input=[1, 2])
    add("map-legacy-iterator", chain(("M", Map(chain(("I", Pass())), legacy=True, Parameters={"v.$": "$$.Map.Item.Value"})), Z), input=[7])
    add("nested-par-in-map", chain(("M", Map(chain(("P", Parallel([chain(("A", Pass(Result=1))), chain(("B", Pass(Result=2)))]))))), Z), input=[1, 2])
    add("unknown-state", {"StartAt": "A", "States": {"A": {"Type": "Pass", "Next": "Nope"}}})
    add("illegal-type", {"StartAt": "A", "States": {"A": {"Type": "Bogus", "End": True}}})
    add("express-pass", chain(("A", Pass(Result=1, ResultPath="$.a")), Z), typ="EXPRESS")
    add("express-task-error", chain(("A", Task("f1")), Z), workers={"f1": {"*": ERR()}}, typ="EXPRESS")
    return out

def poison_corpus():
    """Poison messages on the shared queue next to a healthy execution (C03 poison clause / C18)."""
    out = []
    healthy = chain(("A", Pass(Result=1, ResultPath="$.a")), ("Z", Pass()))
    bodies = {
        "not-json": "{nope",
        "json-array": "[1, 2]",
        "json-number": "5",
        "json-string": "\"hello\"",
        "json-null": "null",
        "no-context": "{\"data\": {}}",
        "context-not-object": "{\"data\": {}, \"context\": 5}",
        "no-statemachine": "{\"data\": {}, \"context\": {}}",
        "no-sm-id": "{\"data\": {}, \"context\": {\"StateMachine\": {}}}",
        "unknown-machine": "{\"data\": {}, \"context\": {\"StateMachine\": {\"Id\": \"" + sm_arn("ghost") + "\"}}}",
        "sm-not-object": "{\"data\": {}, \"context\": {\"StateMachine\": 7}}",
        "state-not-object": "{\"data\": {}, \"context\": {\"StateMachine\": {\"Id\": \"" + sm_arn("m") + "\"}, \"State\": 5}}",
        "unknown-state-name": "{\"data\": {}, \"context\": {\"StateMachine\": {\"Id\": \"" + sm_arn("m") + "\"}, \"State\": {\"Name\": \"Ghost\"}, \"Execution\": {\"Id\": \"" + exec_arn("m", "px") + "\", \"StartTime\": \"2030-03-17T17:46:40+00:00\"}}}",
    }
    for name, body in bodies.items():
        sc = scenario("poison-" + name, healthy, family="poison-" + name)
        sc["script"] = [{"op": "raw", "body": body}]
        out.append(sc)
    return out
