"""
Scenario corpus builders shared by the engine-level checks.  A scenario is a JSON-able dict (see world.World).
Every scenario carries a `family` string made of structural facts only; violation signatures use it.
"""
import copy, itertools, json
from .world import fn_arn, sm_arn, exec_arn

def Task(fn, **kw):
    s = {"Type": "Task", "Resource": fn_arn(fn)}
    s.update(kw)
    return s

def Invoke(fn, **kw):
    """Long-form invocation: the correlation id gets an '.invoke' suffix and the result is wrapped in metadata."""
    s = {"Type": "Task", "Resource": "arn:aws:states:local::rpcmessage:invoke",
         "Parameters": {"FunctionName": fn_arn(fn), "Payload.$": "$"}, "ResultSelector": {"p.$": "$.Payload", "code.$": "$.StatusCode"}}
    s.update(kw)
    return s

def Pass(**kw):
    s = {"Type": "Pass"}
    s.update(kw)
    return s

def Wait(seconds=None, **kw):
    s = {"Type": "Wait"}
    if seconds is not None:
        s["Seconds"] = seconds
    s.update(kw)
    return s

def Fail(error="E.fail", cause="because"):
    return {"Type": "Fail", "Error": error, "Cause": cause}

def Succeed(**kw):
    s = {"Type": "Succeed"}
    s.update(kw)
    return s

def Choice(choices, default=None, **kw):
    s = {"Type": "Choice", "Choices": choices}
    if default:
        s["Default"] = default
    s.update(kw)
    return s

def chain(*states):
    """chain(("A", state), ("B", state)) -> {"StartAt": "A", "States": {...}} linking Next/End where absent."""
    out = {}
    for i, (name, st) in enumerate(states):
        st = copy.deepcopy(st)
        if st["Type"] not in ("Fail", "Succeed", "Choice") and "Next" not in st and "End" not in st:
            if i + 1 < len(states):
                st["Next"] = states[i + 1][0]
            else:
                st["End"] = True
        out[name] = st
    return {"StartAt": states[0][0], "States": out}

def Parallel(branches, **kw):
    s = {"Type": "Parallel", "Branches": branches}
    s.update(kw)
    return s

def Map(processor, legacy=False, **kw):
    s = {"Type": "Map"}
    s["Iterator" if legacy else "ItemProcessor"] = processor
    s.update(kw)
    return s

def scenario(name, definition, workers=None, input=None, family="", typ="STANDARD", **kw):
    sc = {
        "name": name, "family": family or name,
        "machines": {"m": {"definition": definition, "type": typ}},
        "workers": workers or {},
        "starts": [{"machine": "m", "name": "e1", "input": {} if input is None else input}],
    }
    sc.update(kw)
    return sc

OK = lambda v: [["ok", v]]
ERR = lambda e="E1", m="boom": [["err", e, m]]
NONE = [["none"]]

CATCH_ALL = [{"ErrorEquals": ["States.ALL"], "Next": "Z", "ResultPath": "$.err"}]

def handler_coverage_corpus():
    """One scenario per handler / ack site (C03), all run on the canonical schedule and explored closed."""
    out = []
    w1 = {"f1": {"*": OK({"r": 1})}, "f2": {"*": OK(2)}}
    Z = ("Z", Pass())
    add = lambda name, d, **kw: out.append(scenario(name, d, family=name, **kw))
    add("pass-next-end", chain(("A", Pass(Result=1, ResultPath="$.a")), Z))
    add("pass-end", chain(("A", Pass())))
    add("pass-badpath", chain(("A", Pass(InputPath="$.missing")), Z))
    add("pass-badresultpath", chain(("A", Pass(Result=1, ResultPath="$.a.b")), Z), input={"a": 5})
    add("pass-intrinsic-fail", chain(("A", Pass(Parameters={"x.$": "States.Nope(1)"})), Z))
    add("pass-missing-next", {"StartAt": "A", "States": {"A": {"Type": "Pass"}}})
    add("task-next", chain(("A", Task("f1")), Z), workers=w1)
    add("task-end", chain(("A", Task("f1"))), workers=w1)
    add("task-error", chain(("A", Task("f1")), Z), workers={"f1": {"*": ERR()}})
    add("task-error-caught", chain(("A", Task("f1", Catch=CATCH_ALL)), Z), workers={"f1": {"*": ERR()}})
    add("task-retry-then-ok", chain(("A", Task("f1", Retry=[{"ErrorEquals": ["E1"], "IntervalSeconds": 1, "MaxAttempts": 2}])), Z),
        workers={"f1": {"*": [["err", "E1", "x"], ["ok", 3]]}})
    add("task-timeout", chain(("A", Task("f1", TimeoutSeconds=5)), Z), workers={"f1": {"*": NONE}})
    add("task-timeoutpath", chain(("A", Task("f1", TimeoutSecondsPath="$.t")), Z), workers={"f1": {"*": NONE}}, input={"t": 4})
    add("task-unroutable", chain(("A", Task("nosuchfn")), Z))
    add("task-badparams", chain(("A", Task("f1", Parameters={"x.$": "$.missing"})), Z), workers=w1)
    add("task-resultselector-fail", chain(("A", Task("f1", ResultSelector={"x.$": "$.missing"})), Z), workers=w1)
    add("task-invalid-json-reply", chain(("A", Task("f1")), Z), workers={"f1": {"*": [["raw", "{not json"]]}})
    add("task-invalid-service", chain(("A", {"Type": "Task", "Resource": "arn:aws:nosuch:local::function:x"}), Z))
    for nm, res in (("states", "arn:aws:states:local::states:frobnicate"), ("sdk", "arn:aws:states:local::aws-sdk:s3:getObject"), ("rpcmessage", "arn:aws:states:local::rpcmessage:frobnicate")):
        add("task-invalid-service-" + nm, chain(("A", {"Type": "Task", "Resource": res}), Z))
        add("task-invalid-service-%s-caught" % nm, chain(("A", {"Type": "Task", "Resource": res, "Catch": CATCH_ALL}), Z))
    add("task-invoke-next", chain(("A", Invoke("f1")), Z), workers=w1)
    add("task-invoke-error", chain(("A", Invoke("f1")), Z), workers={"f1": {"*": ERR()}})
    add("task-invoke-timeout", chain(("A", Invoke("f1", TimeoutSeconds=3)), Z), workers={"f1": {"*": NONE}})
    add("task-invoke-missing-fn", chain(("A", {"Type": "Task", "Resource": "arn:aws:states:local::rpcmessage:invoke", "Parameters": {"Payload": 1}}), Z))
    add("task-empty-params", chain(("A", Task("f1", Parameters={}, ResultSelector={}, ResultPath="$.r")), ("B", Pass(Parameters={}, ResultPath="$.p")), Z), workers=w1, input={"in": 1})
    add("choice-match", chain(("A", Choice([{"Variable": "$.x", "NumericEquals": 1, "Next": "Z"}], default="Y")), ("Y", Pass(End=True)), Z), input={"x": 1})
    add("choice-default", chain(("A", Choice([{"Variable": "$.x", "NumericEquals": 2, "Next": "Z"}], default="Y")), ("Y", Pass(End=True)), Z), input={"x": 1})
    add("choice-nomatch", chain(("A", Choice([{"Variable": "$.x", "NumericEquals": 2, "Next": "Z"}])), Z), input={"x": 1})
    add("choice-badinput", chain(("A", Choice([{"Variable": "$.x", "NumericEquals": 2, "Next": "Z"}], InputPath="$.nope")), Z), input={"x": 1})
    add("wait-next", chain(("A", Wait(2)), Z))
    add("wait-end", chain(("A", Wait(2))))
    add("wait-badpath", chain(("A", Wait(SecondsPath="$.nope")), Z))
    add("succeed", chain(("A", Succeed())))
    add("fail", chain(("A", Fail())))
    br = lambda n, f: chain((n, Task(f)))
    add("parallel-next", chain(("P", Parallel([br("A", "f1"), br("B", "f2")])), Z), workers=w1)
    add("parallel-end", chain(("P", Parallel([br("A", "f1"), br("B", "f2")]))), workers=w1)
    add("parallel-pass-branches", chain(("P", Parallel([chain(("A", Pass(Result=1))), chain(("B", Pass(Result=2)))])), Z))
    add("parallel-fail-branch", chain(("P", Parallel([chain(("A", Fail())), chain(("B", Pass(Result=2)))])), Z))
    add("parallel-empty-next", chain(("P", Parallel([], ResultPath="$.r")), Z), input={"k": 1})
    add("parallel-empty-end", chain(("P", Parallel([], ResultSelector={"n.$": "States.ArrayLength($)"}))))
    add("parallel-badparams", chain(("P", Parallel([br("A", "f1")], Parameters={"x.$": "$.missing"})), Z), workers=w1)
    add("parallel-resultpath-fail", chain(("P", Parallel([chain(("A", Pass(Result=1)))], ResultPath="$.a.b")), Z), input={"a": 5})
    add("parallel-task-error", chain(("P", Parallel([br("A", "f1"), br("B", "f2")])), Z), workers={"f1": {"*": ERR()}, "f2": {"*": OK(2)}})
    add("parallel-retry", chain(("P", Parallel([br("A", "f1"), br("B", "f2")], Retry=[{"ErrorEquals": ["E1"], "IntervalSeconds": 1, "MaxAttempts": 1}])), Z),
        workers={"f1": {"*": [["err", "E1", "x"], ["ok", 1]]}, "f2": {"*": OK(2)}})
    it = chain(("I", Task("f1")))
    add("map-next", chain(("M", Map(it)), Z), workers={"f1": {"*": [["echo"]]}}, input=[1, 2])
    add("map-end", chain(("M", Map(it))), workers={"f1": {"*": [["echo"]]}}, input=[1, 2])
    add("map-empty", chain(("M", Map(it)), Z), workers=w1, input=[])
    add("map-empty-end", chain(("M", Map(it))), workers=w1, input=[])
    add("map-maxconc", chain(("M", Map(it, MaxConcurrency=1)), Z), workers={"f1": {"*": [["echo"]]}}, input=[1, 2, 3])
    add("map-itemspath", chain(("M", Map(chain(("I", Pass())), ItemsPath="$.items", ItemSelector={"v.$": "$$.Map.Item.Value", "i.$": "$$.Map.Item.Index"})), Z), input={"items": [5, 6]})
    add("map-empty-resultpath-fails", chain(("M", Map(it, ItemsPath="$.items", ResultPath="$.a.b")), Z), workers=w1, input={"a": 5, "items": []})
    add("map-empty-resultpath-fails-caught", chain(("M", Map(it, ItemsPath="$.items", ResultPath="$.a.b", Catch=CATCH_ALL)), Z), workers=w1, input={"a": 5, "items": []})
    add("map-empty-selector-fails", chain(("M", Map(it, ItemsPath="$.items", ResultSelector={"x.$": "States.Nope(1)"})), Z), workers=w1, input={"items": []})
    add("map-baditems", chain(("M", Map(it, ItemsPath="$.nope")), Z), workers=w1, input={})
    add("map-item-error", chain(("M", Map(it)), Z), workers={"f1": {"1": ERR(), "*": [["echo"]]}}, input=[1, 2])
    add("map-legacy-iterator", chain(("M", Map(chain(("I", Pass())), legacy=True, Parameters={"v.$": "$$.Map.Item.Value"})), Z), input=[7])
    add("nested-par-in-map", chain(("M", Map(chain(("P", Parallel([chain(("A", Pass(Result=1))), chain(("B", Pass(Result=2)))]))))), Z), input=[1, 2])
    # a fan-out state that completes at once (no items / no branches) as the last or a middle state of a branch or an iteration
    emap = lambda **kw: Map(chain(("I", Pass())), ItemsPath="$.none", **kw)
    for nm, inner in (("emptymap-end", chain(("A1", emap()))), ("emptymap-next", chain(("A1", emap()), ("A2", Pass()))),
                      ("emptypar-end", chain(("A1", Parallel([])))), ("emptypar-next", chain(("A1", Parallel([])), ("A2", Pass())))):
        add("nested-%s-in-parallel" % nm, chain(("P", Parallel([inner, chain(("B1", Pass(Result=2)))])), Z), input={"none": []})
        add("nested-%s-in-map" % nm, chain(("M", Map(inner, ItemsPath="$.rows")), Z), input={"rows": [{"none": []}, {"none": []}]})
    # the transition itself is refused (the merged output exceeds the data quota although input and result are each within it): the
    # failure - terminal notification or the catcher's successor - must still be issued before the state's event is acknowledged
    big = {"blob": "x" * 200000}
    add("task-merged-output-too-big", chain(("A", Task("f1", ResultPath="$.r")), Z), workers={"f1": {"*": [["okstr", 100000]]}}, input=big)
    add("task-merged-output-too-big-caught", chain(("A", Task("f1", ResultPath="$.r", Catch=CATCH_ALL)), Z), workers={"f1": {"*": [["okstr", 100000]]}}, input=big)
    add("pass-output-too-big", chain(("A", Pass(Result="y" * 100000, ResultPath="$.r")), Z), input=big)
    add("parallel-output-too-big-caught", chain(("P", Parallel([chain(("A", Pass(Result="y" * 100000))), chain(("B", Pass(Result=2)))], ResultPath="$.r", Catch=CATCH_ALL)), Z), input=big)
    # every filter of every state type failing in each way it can fail, unhandled and caught: each of these takes its own
    # except-clause in the state's handler (error reported, then the state's event acknowledged), on the way in or - for Task,
    # Parallel and Map - in the continuation that runs when the reply / the last branch result arrives
    BADP, BADI = {"x.$": "$.missing"}, {"x.$": "States.Nope(1)"}
    fails = (("inputpath", {"InputPath": "$.missing"}), ("params-path", {"Parameters": BADP}), ("params-intrinsic", {"Parameters": BADI}),
             ("selector-path", {"ResultSelector": BADP}), ("selector-intrinsic", {"ResultSelector": BADI}),
             ("resultpath", {"ResultPath": "$.a.b"}), ("resultpath-context", {"ResultPath": "$$.x"}), ("outputpath", {"OutputPath": "$.missing"}))
    makers = (("task", lambda kw: Task("f1", **kw)), ("invoke", lambda kw: Invoke("f1", **kw)),
              ("parallel", lambda kw: Parallel([br("A1", "f1"), chain(("B1", Pass(Result=2)))], **kw)),
              ("map", lambda kw: Map(it, ItemsPath="$.items", **kw)), ("pass", lambda kw: Pass(Result={"r": 1}, **kw)))
    for sname, mk in makers:
        for fname, kw in fails:
            if sname == "pass" and fname.startswith("selector"):
                continue
            if sname == "map" and fname.startswith("params"):
                kw = {"ItemSelector": kw["Parameters"]}
            if sname == "invoke" and fname.startswith("params"):
                kw = {"Parameters": {"FunctionName": fn_arn("f1"), "Payload.$": kw["Parameters"]["x.$"]}}
            for handled in ("", "-caught", "-retried"):
                if handled and sname == "pass":
                    continue
                kw2 = dict(kw)
                if handled == "-caught":
                    kw2["Catch"] = CATCH_ALL
                if handled == "-retried":
                    kw2["Retry"] = [{"ErrorEquals": ["States.ALL"], "IntervalSeconds": 1, "MaxAttempts": 1}]
                add("%s-%s-fails%s" % (sname, fname, handled), chain(("S", mk(kw2)), Z),
                    workers={"f1": {"*": [["echo"]]}}, input={"a": 5, "items": [1, 2]})
    # an ItemSelector that fails for a later item only (after earlier iterations would have been launched / in a later batch)
    for mc in (0, 1):
        for handled, hk in (("", {}), ("-caught", {"Catch": CATCH_ALL})):
            add("map-selector-fails-on-second-item-mc%d%s" % (mc, handled),
                chain(("S", Map(it, ItemsPath="$.items", ItemSelector={"v.$": "$$.Map.Item.Value.x"}, MaxConcurrency=mc, **hk)), Z),
                workers={"f1": {"*": [["echo"]]}}, input={"items": [{"x": 1}, {"y": 2}]})
    for fname, kw in (("inputpath", {"InputPath": "$.missing"}), ("outputpath", {"OutputPath": "$.missing"})):
        add("wait-%s-fails" % fname, chain(("S", Wait(1, **kw)), Z), input={"a": 5})
        add("succeed-%s-fails" % fname, chain(("S", Succeed(**kw))), input={"a": 5})
        add("choice-%s-fails" % fname, chain(("S", Choice([{"Variable": "$.a", "NumericEquals": 5, "Next": "Z"}], **kw)), Z), input={"a": 5})
    # the same continuation failures inside a branch: the failure must reach the enclosing fan-out, once
    add("branch-task-resultpath-fails", chain(("P", Parallel([chain(("A1", Task("f1", ResultPath="$.a.b"))), chain(("B1", Pass(Result=2)))])), Z),
        workers={"f1": {"*": [["echo"]]}}, input={"a": 5})
    add("branch-task-selector-fails-caught-outside", chain(("P", Parallel([chain(("A1", Task("f1", ResultSelector=BADI))), chain(("B1", Pass(Result=2)))], Catch=CATCH_ALL)), Z),
        workers={"f1": {"*": [["echo"]]}}, input={"a": 5})
    # the *final* output is over the quota (every transition on the way was within it): the execution fails - status, output, error and
    # cause of the record and of the notification say so consistently
    add("terminal-output-too-big", chain(("A", Pass(Result="y" * 100000, ResultPath="$.r")), ("B", Pass(Result="z" * 100000, ResultPath="$.s"))), input={"blob": "x" * 100000})
    add("terminal-task-output-too-big", chain(("A", Task("f1", ResultPath="$.r"))), workers={"f1": {"*": [["okstr", 100000]]}}, input=big)
    add("unknown-state", {"StartAt": "A", "States": {"A": {"Type": "Pass", "Next": "Nope"}}})
    add("illegal-type", {"StartAt": "A", "States": {"A": {"Type": "Bogus", "End": True}}})
    add("express-pass", chain(("A", Pass(Result=1, ResultPath="$.a")), Z), typ="EXPRESS")
    add("express-task-error", chain(("A", Task("f1")), Z), workers={"f1": {"*": ERR()}}, typ="EXPRESS")
    return out

def bystander_family(tier="quick"):
    """Every handler-coverage scenario next to a *bystander* execution of another machine that is blocked in a Task (reply
    delayed), then in a Wait: whatever the first execution's handlers do must leave the bystander alone (cross-execution
    interference: acknowledging, cancelling or timing out something that belongs to another execution)."""
    out = []
    by = chain(("BT", Task("fby")), ("BW", Wait(1)), ("BZ", Pass(Result="by-done", ResultPath="$.z")))
    for s0 in handler_coverage_corpus():
        if s0.get("script") or len(s0["machines"]) != 1:
            continue
        s = copy.deepcopy(s0)
        s["name"] = "by+" + s0["name"]
        s["family"] = "bystander+" + s0["family"]
        s["machines"]["by"] = {"definition": by}
        s["workers"] = dict(s["workers"], fby={"*": [["delay", ["ok", {"by": 1}]]]})
        s["starts"] = [{"machine": "by", "name": "b1", "input": {"q": 1}}] + s["starts"]
        out.append(s)
    # every poison event arriving while the bystander holds an unacknowledged Task event (and later a Wait event)
    for s0 in poison_corpus():
        s = copy.deepcopy(s0)
        s["name"] = "by+" + s0["name"]
        s["family"] = "bystander+" + s0["family"]
        s["machines"]["by"] = {"definition": by}
        s["workers"] = dict(s["workers"], fby={"*": [["delay", ["ok", {"by": 1}]]]})
        s["script"] = [{"op": "start", "machine": "by", "name": "b1", "input": {"q": 1}}] + s["script"]
        out.append(s)
    return out

def observability_family(tier="quick"):
    """Configuration and input dimensions of the observability surfaces (C09/C11): every loggingConfiguration level with and
    without execution data, STANDARD and EXPRESS, and execution inputs that are legal JSON but falsy in Python."""
    out = []
    base = {s["name"]: s for s in handler_coverage_corpus()}
    picks = ["task-next", "task-error", "parallel-next", "map-next", "pass-next-end", "task-error-caught"]
    cfgs = [("all-nodata", {"level": "ALL", "includeExecutionData": False}), ("all-data", {"level": "ALL", "includeExecutionData": True}),
            ("error-nodata", {"level": "ERROR", "includeExecutionData": False}), ("fatal", {"level": "FATAL"}), ("off", {"level": "OFF"})]
    for nm in picks:
        for cn, cfg in cfgs:
            s = copy.deepcopy(base[nm])
            s["name"] = "log-%s+%s" % (cn, nm); s["family"] = "logging-%s+%s" % (cn, base[nm]["family"])
            s["machines"]["m"]["loggingConfiguration"] = dict(cfg, destinations=[{"cloudWatchLogsLogGroup": {"logGroupArn": "arn:aws:logs:local:0123456789:log-group:g:*"}}])
            out.append(s)
    # falsy / scalar / array inputs, both types, through a machine whose output is its input (Pass) and one that fails
    echo = chain(("A", Pass()), ("Z", Pass()))
    failing = chain(("A", Pass()), ("F", Fail("E.f", "because")))
    for typ in ("STANDARD", "EXPRESS"):
        for iname, inp in (("empty-array", []), ("zero", 0), ("empty-string", ""), ("false", False), ("empty-object", {}), ("array", [0, ""]), ("string", "s"), ("number", 1.5), ("true", True)):
            for mname, d in (("echo", echo), ("fail", failing)):
                if tier == "quick" and mname == "fail" and iname in ("array", "string", "number", "true"):
                    continue
                out.append(scenario("input-%s-%s-%s" % (iname, mname, typ.lower()), d, input=inp, typ=typ, family="input-%s-%s-%s" % (iname, mname, typ.lower())))
    # an execution name used again after the first run has ended (the API does not refuse it): every surface must then tell the story of the second run
    for typ in ("STANDARD", "EXPRESS"):
        for mname, d in (("echo", chain(("A", Pass()), ("W", Wait(1)), ("Z", Pass()))), ("fail", failing)):
            sc = scenario("name-reused-%s-%s" % (mname, typ.lower()), d, typ=typ, family="name-reused-%s-%s" % (mname, typ.lower()))
            sc["starts"] = []
            sc["script"] = [{"op": "start", "machine": "m", "name": "nightly", "input": {"n": 1}}, {"op": "start", "machine": "m", "name": "nightly", "input": {"n": 2}, "after_quiet": True}]
            out.append(sc)
    return out

def store_config_family(tier="quick"):
    """Representative executions over the Redis-backed stores, on one engine instance and on two instances sharing them (C11:
    'reading through any engine instance that shares the store gives the same answers'; the records then live in Redis hashes, the
    histories in Redis lists, and the second instance reads what the first one wrote)."""
    out = []
    pool = {s["name"]: s for s in handler_coverage_corpus() + seq_family(tier) + fanout_fail_family(tier) + observability_family(tier)}
    picks = ["task-next", "task-error-caught", "parallel-next", "map-maxconc", "wait-next", "seq-two-exec-one-machine", "parfail-A-task-B1-catch", "name-reused-echo-standard", "input-empty-array-echo-standard"]
    if tier == "thorough":
        picks += ["task-retry-then-ok", "task-timeout", "choice-default", "fail", "map-item-error", "nested-par-in-map", "seq-exec-timeout-in-task", "parfail-A-task-Bwait-none", "express-task-error", "input-zero-fail-standard"]
    for nm in picks:
        for n in (1, 2):
            s = copy.deepcopy(pool[nm])
            s["name"] = "redis%d+%s" % (n, nm); s["family"] = "redis%d+%s" % (n, pool[nm]["family"])
            s["store"] = "redis"; s["instances"] = n
            out.append(s)
    return out

def history_api_family(tier="quick"):
    """GetExecutionHistory read through the real REST front end at every point of an execution, forwards and with reverseOrder
    (C09: 'reverseOrder returns exactly the reverse list'; a read must not disturb what later reads and later events see)."""
    out = []
    d = chain(("First", Pass(Result=1, ResultPath="$.a")), ("Pause", Wait(2)), ("Last", Pass()))
    arn = exec_arn("m", "e1")
    rd = lambda rev, **kw: dict({"op": "api", "action": "GetExecutionHistory", "params": dict({"executionArn": arn}, **({"reverseOrder": True} if rev else {})), "keep_body": True}, **kw)
    for nm, reads in (("reverse-forward", [rd(True), rd(False)]), ("reverse-reverse", [rd(True), rd(True)]), ("forward-reverse-late", [rd(False), rd(True, after_quiet=True), rd(False, after_quiet=True)])):
        sc = scenario("hist-api-" + nm, d, family="hist-api-" + nm, input={"k": 1})
        sc["script"] = [dict(st, op="start") for st in sc["starts"]] + reads
        sc["starts"] = []
        out.append(sc)
    dt = chain(("T", Task("f1", Catch=CATCH_ALL)), ("Z", Pass()))
    sc = scenario("hist-api-task-fails", dt, family="hist-api-task-fails", workers={"f1": {"*": [["delay", ["err", "E1", "x"]]]}})
    sc["script"] = [dict(st, op="start") for st in sc["starts"]] + [rd(True), rd(False, after_quiet=True)]
    sc["starts"] = []
    out.append(sc)
    return out

def poison_corpus():
    """Poison messages on the shared queue next to a healthy execution (C03 poison clause / C18)."""
    out = []
    healthy = chain(("A", Pass(Result=1, ResultPath="$.a")), ("Z", Pass()))
    bodies = {
        "not-json": "{nope",
        "json-array": "[1, 2]",
        "json-number": "5",
        "json-string": "\"hello\"",
        "json-null": "null",
        "no-context": "{\"data\": {}}",
        "context-not-object": "{\"data\": {}, \"context\": 5}",
        "no-statemachine": "{\"data\": {}, \"context\": {}}",
        "no-sm-id": "{\"data\": {}, \"context\": {\"StateMachine\": {}}}",
        "unknown-machine": "{\"data\": {}, \"context\": {\"StateMachine\": {\"Id\": \"" + sm_arn("ghost") + "\"}}}",
        "sm-not-object": "{\"data\": {}, \"context\": {\"StateMachine\": 7}}",
        "state-not-object": "{\"data\": {}, \"context\": {\"StateMachine\": {\"Id\": \"" + sm_arn("m") + "\"}, \"State\": 5}}",
        "unknown-state-name": "{\"data\": {}, \"context\": {\"StateMachine\": {\"Id\": \"" + sm_arn("m") + "\"}, \"State\": {\"Name\": \"Ghost\"}, \"Execution\": {\"Id\": \"" + exec_arn("m", "px") + "\", \"StartTime\": \"2030-03-17T17:46:40+00:00\"}}}",
    }
    for name, body in bodies.items():
        sc = scenario("poison-" + name, healthy, family="poison-" + name)
        sc["script"] = [{"op": "raw", "body": body}]
        out.append(sc)
    # bodies that are not UTF-8 at all (another encoding, compressed / binary data)
    for name, raw in (("latin1-json", '{"data": "caf\u00e9"}'.encode("latin-1")), ("utf16-json", '{"data": {}}'.encode("utf-16")), ("binary", b"\x1f\x8b\x08\x00\xfe\xff\x80\x81")):
        sc = scenario("poison-" + name, healthy, family="poison-" + name)
        sc["script"] = [{"op": "raw", "body_hex": raw.hex()}]
        out.append(sc)
    return out

# ------------------------------------------------------------------------------------------------------
# Families for the schedule-quantified properties (C02, C05, C06, C09, C11).  Every Task has its own function queue
# (or is keyed by its payload) so that a worker's reply depends on (payload, attempt) only, never on arrival order.

def multi(name, machines, starts, workers=None, family=None, **kw):
    sc = {"name": name, "family": family or name, "machines": machines, "workers": workers or {}, "starts": starts}
    sc.update(kw)
    return sc

def seq_family(tier="quick"):
    out = []
    Z = ("Z", Pass())
    d1 = chain(("A", Pass(Result=1, ResultPath="$.a")), ("C", Choice([{"Variable": "$.a", "NumericEquals": 1, "Next": "W"}], default="Z")),
               ("W", Wait(1)), ("T", Task("f1")), Z)
    out.append(scenario("seq-chain", d1, workers={"f1": {"*": OK({"r": 1})}}, input={"x": 0}, family="seq-chain"))
    dt = chain(("T", Task("f1")), Z)
    out.append(multi("seq-two-exec-one-machine", {"m": {"definition": dt}},
                     [{"machine": "m", "name": "e1", "input": {"k": 1}}, {"machine": "m", "name": "e2", "input": {"k": 2}}],
                     workers={"f1": {"*": [["echo"]]}}))
    dw = chain(("W", Wait(2)), Z)
    out.append(multi("seq-wait-and-task", {"m": {"definition": dt}, "n": {"definition": dw}},
                     [{"machine": "m", "name": "e1", "input": {"k": 1}}, {"machine": "n", "name": "e2", "input": {"k": 2}}],
                     workers={"f1": {"*": [["echo"]]}}))
    out.append(scenario("seq-retry-ok", chain(("T", Task("f1", Retry=[{"ErrorEquals": ["E1"], "IntervalSeconds": 1, "MaxAttempts": 2}])), Z),
                        workers={"f1": {"*": [["err", "E1", "x"], ["ok", 3]]}}, family="seq-retry-ok"))
    out.append(scenario("seq-retry-exhausted", chain(("T", Task("f1", Retry=[{"ErrorEquals": ["E1"], "IntervalSeconds": 1, "MaxAttempts": 1}])), Z),
                        workers={"f1": {"*": ERR()}}, family="seq-retry-exhausted"))
    out.append(scenario("seq-catch", chain(("T", Task("f1", Catch=CATCH_ALL)), Z), workers={"f1": {"*": ERR()}}, family="seq-catch"))
    out.append(scenario("seq-timeout", chain(("T", Task("f1", TimeoutSeconds=3)), Z), workers={"f1": {"*": NONE}}, family="seq-timeout"))
    out.append(scenario("seq-task-timeout-late-reply", chain(("T", Task("f1", TimeoutSeconds=3, Catch=CATCH_ALL)), ("Z", Task("f2"))),
                        workers={"f1": {"*": NONE}, "f2": {"*": OK(1)}}, family="seq-task-timeout-caught"))
    # one generic Resource (the long invoke form) used for different functions, within one execution and across two machines on one
    # instance, mixed with the short form: every request goes to the queue of *its* function
    di = chain(("I1", Invoke("f1", ResultPath="$.one")), ("I2", Invoke("f2", ResultPath="$.two")), ("T3", Task("f2", ResultPath="$.three")), ("I4", Invoke("f1", ResultPath="$.four")), Z)
    out.append(scenario("seq-invoke-two-functions", di, workers={"f1": {"*": OK("from-f1")}, "f2": {"*": OK("from-f2")}}, family="seq-invoke-two-functions"))
    out.append(multi("seq-invoke-two-machines", {"m": {"definition": chain(("I", Invoke("f1")), Z)}, "n": {"definition": chain(("I", Invoke("f2")), Z)}},
                     [{"machine": "m", "name": "e1", "input": {"k": 1}}, {"machine": "n", "name": "e2", "input": {"k": 2}}],
                     workers={"f1": {"*": OK("from-f1")}, "f2": {"*": OK("from-f2")}}))
    # the function of a long-form invocation taken from the input: two executions of one machine name different functions
    dfi = chain(("I", {"Type": "Task", "Resource": "arn:aws:states:local::rpcmessage:invoke", "Parameters": {"FunctionName.$": "$.fn", "Payload": {"x": 1}},
                       "ResultSelector": {"p.$": "$.Payload"}}), Z)
    out.append(multi("seq-invoke-function-from-input", {"m": {"definition": dfi}},
                     [{"machine": "m", "name": "e1", "input": {"fn": fn_arn("f1")}}, {"machine": "m", "name": "e2", "input": {"fn": fn_arn("f2")}}],
                     workers={"f1": {"*": OK("from-f1")}, "f2": {"*": OK("from-f2")}}))
    dp = chain(("A", Pass(Result=1, ResultPath="$.a")), Z)
    out.append(multi("seq-three-pass", {"m": {"definition": dp}},
                     [{"machine": "m", "name": "e%d" % i, "input": {"i": i}} for i in (1, 2, 3)]))
    out.append(scenario("seq-express", chain(("T", Task("f1")), Z), workers={"f1": {"*": OK(1)}}, typ="EXPRESS", family="seq-express"))
    out.append(scenario("seq-fail", chain(("A", Pass()), ("F", Fail())), family="seq-fail"))
    d = chain(("W", Wait(10)), Z); d["TimeoutSeconds"] = 4
    out.append(scenario("seq-exec-timeout-in-wait", d, family="seq-exec-timeout-in-wait"))
    d = chain(("T", Task("f1", Catch=CATCH_ALL)), Z); d["TimeoutSeconds"] = 4
    out.append(scenario("seq-exec-timeout-in-task", d, workers={"f1": {"*": NONE}}, family="seq-exec-timeout-in-task"))
    out.append(scenario("seq-exec-timeout-express", d, workers={"f1": {"*": NONE}}, family="seq-exec-timeout-express", typ="EXPRESS"))
    # a returned (unroutable) request is handled while another execution's Task event is outstanding on the same channel
    out.append(multi("seq-unroutable-beside-blocked", {"m": {"definition": dt}, "n": {"definition": chain(("U", Task("nosuchfn")), Z)}},
                     [{"machine": "m", "name": "e1", "input": {"k": 1}}, {"machine": "n", "name": "e2", "input": {"k": 2}}],
                     workers={"f1": {"*": [["delay", ["ok", {"r": 1}]]]}}))
    # a raw start event that carries the definition of a machine the store has never seen ("by value"): it is registered and run,
    # and a later ordinary start of that machine finds it
    dd = chain(("DA", Pass(Result="by-value", ResultPath="$.how")), ("DT", Task("f1", ResultPath="$.t")))
    sc = scenario("seq-raw-start-with-definition", dt, workers={"f1": {"*": OK(1)}}, family="seq-raw-start-with-definition")
    sc["starts"] = []
    sc["script"] = [{"op": "raw", "arn": None, "body": json.dumps({"data": {"k": 1}, "context": {"StateMachine": {"Id": sm_arn("byvalue"), "Definition": dd}}})},
                    {"op": "raw", "after_quiet": True, "body": json.dumps({"data": {"k": 2}, "context": {"StateMachine": {"Id": sm_arn("byvalue")}}})}]
    sc["expect_outputs"] = [{"k": 1, "how": "by-value", "t": 1}, {"k": 2, "how": "by-value", "t": 1}]
    out.append(sc)
    # a raw start event as an external client would publish it (no Execution fields)
    sc = scenario("seq-raw-start", dt, workers={"f1": {"*": OK(1)}}, family="seq-raw-start")
    sc["starts"] = []
    sc["script"] = [{"op": "raw", "body": '{"data": {"k": 1}, "context": {"StateMachine": {"Id": "' + sm_arn("m") + '"}}}'}]
    out.append(sc)
    if tier == "thorough":
        # two and three concurrent executions of machines that block (their events interleave on one instance queue and one reply queue)
        out.append(multi("seq-two-chains", {"m": {"definition": d1}},
                         [{"machine": "m", "name": "e1", "input": {"x": 0}}, {"machine": "m", "name": "e2", "input": {"x": 1}}], workers={"f1": {"*": OK({"r": 1})}}))
        out.append(multi("seq-retry-beside-timeout", {"m": {"definition": chain(("T", Task("f1", Retry=[{"ErrorEquals": ["E1"], "IntervalSeconds": 1, "MaxAttempts": 2}])), Z)},
                                                        "n": {"definition": chain(("T", Task("f2", TimeoutSeconds=2, Catch=CATCH_ALL)), Z)}},
                         [{"machine": "m", "name": "e1", "input": {"k": 1}}, {"machine": "n", "name": "e2", "input": {"k": 2}}],
                         workers={"f1": {"*": [["err", "E1", "x"], ["ok", 3]]}, "f2": {"*": [["delay", ["ok", "late"]]]}}))
        out.append(multi("seq-three-tasks", {"m": {"definition": dt}}, [{"machine": "m", "name": "e%d" % i, "input": {"k": i}} for i in (1, 2, 3)], workers={"f1": {"*": [["echo"]]}}))
    # async child launch
    child = chain(("CA", Task("f2")), ("CZ", Pass()))
    parent = chain(("L", {"Type": "Task", "Resource": "arn:aws:states:local::states:startExecution",
                          "Parameters": {"StateMachineArn": sm_arn("c"), "Input": {"from": "parent"}, "Name": "child1"}}), Z)
    out.append(multi("seq-async-child", {"m": {"definition": parent}, "c": {"definition": child}},
                     [{"machine": "m", "name": "e1", "input": {}}], workers={"f2": {"*": OK("c")}}))
    return out

def _branch(prefix, n, kind="task"):
    """A branch of n states; Task states get their own function f_<name>."""
    sts = []
    for i in range(n):
        nm = "%s%d" % (prefix, i + 1)
        if kind == "task":
            sts.append((nm, Task("f_" + nm)))
        elif kind == "pass":
            sts.append((nm, Pass(Result=nm)))
        elif kind == "wait":
            sts.append((nm, Wait(1 + i)))
        elif kind == "wait0":
            sts.append((nm, Wait(0)))
    return chain(*sts)

def _okworkers(defn, override=None):
    w = {}
    def rec(x):
        if isinstance(x, dict):
            if x.get("Type") == "Task" and str(x.get("Resource", "")).startswith("arn:aws:rpcmessage"):
                f = x["Resource"].rsplit(":", 1)[-1]
                w[f] = {"*": [["ok", {"from": f}]]}
            for v in x.values():
                rec(v)
        elif isinstance(x, list):
            for v in x:
                rec(v)
    rec(defn)
    w.update(override or {})
    return w

def fanout_ok_family(tier="quick"):
    out = []
    Z = ("Z", Pass())
    def add(name, d, inp=None, workers=None, **kw):
        sc = scenario(name, d, workers=_okworkers(d, workers), input=inp, family=name, requests_once=True, **kw)
        out.append(sc)
    add("par-2x1", chain(("P", Parallel([_branch("A", 1), _branch("B", 1)])), Z))
    add("par-2x1-end", chain(("P", Parallel([_branch("A", 1), _branch("B", 1)]))))
    add("par-2x2", chain(("P", Parallel([_branch("A", 2), _branch("B", 2)])), Z))
    add("par-3x1", chain(("P", Parallel([_branch("A", 1), _branch("B", 1), _branch("C", 1)], ResultPath="$.r")), Z), inp={"k": 1})
    add("par-empty", chain(("P", Parallel([], ResultPath="$.r")), Z), inp={"k": 1})
    add("par-mixed", chain(("P", Parallel([_branch("A", 1), _branch("B", 1, "wait"), _branch("C", 1, "pass")],
                                          ResultSelector={"a.$": "$[0]", "c.$": "$[2]"})), Z))
    it = chain(("I", Task("fi")))
    echo = {"fi": {"*": [["echo"]]}}
    for n in ((0, 1, 2, 3) if tier == "quick" else (0, 1, 2, 3, 4)):
        for mc in range(0, n + 2):
            if tier == "quick" and n == 3 and mc in (3,):
                continue
            items = [10 * (i + 1) for i in range(n)]
            st = Map(it, MaxConcurrency=mc) if mc else Map(it)
            add("map-n%d-mc%d" % (n, mc), chain(("M", st), Z), inp=items, workers=echo, maxc={"fi": mc or max(n, 1)})
    add("map-2-tasks-2", chain(("M", Map(chain(("I1", Task("fi")), ("I2", Task("fj"))))), Z), inp=[1, 2], workers={"fi": {"*": [["echo"]]}, "fj": {"*": [["echo"]]}})
    add("par-in-map", chain(("M", Map(chain(("P", Parallel([_branch("A", 1), _branch("B", 1, "pass")]))))), Z), inp=[1, 2],
        workers={"f_A1": {"*": [["echo"]]}})
    add("map-in-par", chain(("P", Parallel([chain(("M", Map(it, ItemsPath="$.items"))), _branch("B", 1)])), Z), inp={"items": [1, 2]}, workers=echo)
    add("par-invoke", chain(("P", Parallel([chain(("A1", Invoke("f_A1"))), _branch("B", 1)])), Z))
    # the same Map state entered twice in one execution (loop through a Choice)
    loop = {"StartAt": "M", "States": {
        "M": Map(chain(("I", Task("fi"))), ItemsPath="$.items", ResultPath="$.res", Next="N"),
        "N": Pass(Parameters={"items.$": "$.next", "next": [], "seen.$": "$.res", "again.$": "$.more", "more": False}, Next="C"),
        "C": Choice([{"Variable": "$.again", "BooleanEquals": True, "Next": "M"}], default="Z"),
        "Z": Pass(End=True)}}
    # ... and the same Parallel state entered twice (each entry is its own fan-out: results and held events must not mix)
    ploop = {"StartAt": "P", "States": {
        "P": Parallel([chain(("A1", Task("f_A1", InputPath="$.cur"))), chain(("B1", Task("f_B1", InputPath="$.cur")))], ResultPath="$.res", Next="N"),
        "N": Pass(Parameters={"cur.$": "$.next", "next": "none", "seen.$": "$.res", "again.$": "$.more", "more": False}, Next="C"),
        "C": Choice([{"Variable": "$.again", "BooleanEquals": True, "Next": "P"}], default="Z"),
        "Z": Pass(End=True)}}
    add("par-reentered-loop", ploop, inp={"cur": "first", "next": "second", "more": True}, workers={"f_A1": {"*": [["echo"]]}, "f_B1": {"*": [["echo"]]}})
    add("map-reentered-loop", loop, inp={"items": ["a1", "a2"], "next": ["b1", "b2"], "more": True}, workers={"fi": {"*": [["echo"]]}})
    # an iteration whose failure is caught inside the iteration, under MaxConcurrency (the slot is marked caught while its fallback runs)
    itc = chain(("I", Task("fi", Catch=[{"ErrorEquals": ["States.ALL"], "Next": "Fix", "ResultPath": "$.e"}])), ("Fix", Task("ffix")))
    itc["States"]["I"]["End"] = True
    itc["States"]["I"].pop("Next", None)
    add("map-mc2-caught-iteration", chain(("M", Map(itc, MaxConcurrency=2, ItemSelector={"v.$": "$$.Map.Item.Value"})), Z), inp=[0, 1, 2] if tier == "quick" else [0, 1, 2, 3],
        workers={"fi": {json.dumps({"v": 0}): ERR(), "*": [["echo"]]}, "ffix": {"*": [["ok", "fixed"]]}}, maxc={"fi": 2})
    # a branch whose own Task failure is caught inside the branch: the join must wait for the recovery Task
    rec = chain(("A1", Task("f_A1", Catch=[{"ErrorEquals": ["States.ALL"], "Next": "A2", "ResultPath": "$.e"}])), ("A2", Task("f_A2")))
    add("par-caught-recovering", chain(("P", Parallel([rec, _branch("B", 1)])), Z),
        workers={"f_A1": {"*": ERR("E9")}, "f_A2": {"*": [["delay", ["ok", "a2"]]]}, "f_B1": {"*": [["ok", "b"]]}})
    add("map-caught-iteration-no-mc", chain(("M", Map(itc, ItemSelector={"v.$": "$$.Map.Item.Value"})), Z), inp=[0, 1],
        workers={"fi": {json.dumps({"v": 0}): ERR(), "*": [["echo"]]}, "ffix": {"*": [["delay", ["ok", "fixed"]]]}})
    # a Map nested in an iteration of a Map that runs in MaxConcurrency batches
    inner = chain(("N", Map(chain(("J", Task("fj"))), ItemsPath="$")))
    add("map-in-map-outer-mc1", chain(("M", Map(inner, ItemsPath="$.rows", MaxConcurrency=1)), Z), inp={"rows": [[1, 2], [3, 4]]}, workers={"fj": {"*": [["echo"]]}})
    add("map-in-map-both-mc1", chain(("M", Map(chain(("N", Map(chain(("J", Task("fj"))), ItemsPath="$", MaxConcurrency=1))), ItemsPath="$.rows", MaxConcurrency=1)), Z),
        inp={"rows": [[1, 2], [3]]}, workers={"fj": {"*": [["echo"]]}})
    add("par-in-map-mc1", chain(("M", Map(chain(("P", Parallel([_branch("A", 1), _branch("B", 1, "pass")]))), MaxConcurrency=1)), Z), inp=[1, 2],
        workers={"f_A1": {"*": [["echo"]]}})
    # InputPath on the fan-out state itself: the saved raw input (for ResultPath and for the Map's re-entry between batches) is not the effective input
    add("map-inputpath-mc2", chain(("M", Map(it, InputPath="$.order", ItemsPath="$.lines", MaxConcurrency=2, ResultPath="$.res")), Z),
        inp={"order": {"lines": [1, 2, 3]}, "keep": True}, workers=echo, maxc={"fi": 2})
    add("map-inputpath-empty", chain(("M", Map(it, InputPath="$.order", ItemsPath="$.lines", ResultPath="$.res")), Z), inp={"order": {"lines": []}, "keep": True}, workers=echo)
    add("par-inputpath-resultpath", chain(("P", Parallel([_branch("A", 1), _branch("B", 1, "pass")], InputPath="$.order", ResultPath="$.res")), Z),
        inp={"order": {"n": 1}, "keep": True}, workers={"f_A1": {"*": [["echo"]]}})
    if tier == "thorough":
        add("par-3x2", chain(("P", Parallel([_branch("A", 2), _branch("B", 2), _branch("C", 2)])), Z))
        add("par-4x1", chain(("P", Parallel([_branch(c, 1) for c in "ABCD"])), Z))
        add("par-in-par", chain(("P", Parallel([chain(("Q", Parallel([_branch("A", 1), _branch("B", 1)]))), _branch("C", 1)])), Z))
    return out

def fanout_fail_family(tier="quick"):
    """Parallel/Map shapes x failure assignments x {no handler, Catch, Retry, Retry+Catch} x sibling activity."""
    out = []
    Z = ("Z", Pass())
    RETRY1 = [{"ErrorEquals": ["E1"], "IntervalSeconds": 1, "MaxAttempts": 1, "BackoffRate": 1.0}]
    CATCH = [{"ErrorEquals": ["States.ALL"], "Next": "Z", "ResultPath": "$.err"}]
    handlers = {"none": {}, "catch": {"Catch": CATCH}, "retry": {"Retry": RETRY1}, "retrycatch": {"Retry": RETRY1, "Catch": CATCH}}
    for hname, h in handlers.items():
        # Parallel [A: Task fails] [B: Task(s) outstanding]
        for nb in (1, 2):
            d = chain(("P", Parallel([_branch("A", 1), _branch("B", nb)], **h)), Z)
            w = _okworkers(d, {"f_A1": {"*": ERR()}})
            out.append(scenario("parfail-A-task-B%d-%s" % (nb, hname), d, workers=w, family="parfail-task-sibling-%s" % hname))
        # sibling is a long-form invoke Task (correlation id = event id + '.invoke')
        d = chain(("P", Parallel([_branch("A", 1), chain(("B1", Invoke("f_B1")), ("B2", Pass()))], **h)), Z)
        out.append(scenario("parfail-A-task-Binvoke-%s" % hname, d, workers=_okworkers(d, {"f_A1": {"*": ERR()}, "f_B1": {"*": [["ok", "b"]]}}), family="parfail-invoke-sibling-%s" % hname))
        # failing attempt then success on retry
        if "Retry" in h:
            d = chain(("P", Parallel([_branch("A", 1), _branch("B", 1)], **h)), Z)
            w = _okworkers(d, {"f_A1": {"*": [["err", "E1", "boom"], ["ok", "a2"]]}})
            out.append(scenario("parfail-A-then-ok-%s" % hname, d, workers=w, family="parfail-retry-succeeds-%s" % hname))
        # sibling in a Wait
        d = chain(("P", Parallel([_branch("A", 1), _branch("B", 1, "wait")], **h)), Z)
        out.append(scenario("parfail-A-task-Bwait-%s" % hname, d, workers=_okworkers(d, {"f_A1": {"*": ERR()}}), family="parfail-wait-sibling-%s" % hname))
        # sibling in a zero-delay Wait (its timer is armed but has not fired when the failure is handled)
        d = chain(("P", Parallel([_branch("A", 1), chain(("B1", Wait(0)))], **h)), Z)
        out.append(scenario("parfail-A-task-Bwait0-%s" % hname, d, workers=_okworkers(d, {"f_A1": {"*": ERR()}}), family="parfail-wait0-sibling-%s" % hname))
        d = chain(("P", Parallel([chain(("A1", Fail("E1", "failstate"))), chain(("B1", Wait(0)), ("B2", Pass()))], **h)), Z)
        out.append(scenario("parfail-A-failstate-Bwait0-%s" % hname, d, workers={}, family="parfail-failstate-wait0-%s" % hname))
        # Fail state branch (no task): sibling Task
        d = chain(("P", Parallel([chain(("A1", Fail("E1", "failstate"))), _branch("B", 1)], **h)), Z)
        out.append(scenario("parfail-A-failstate-%s" % hname, d, workers=_okworkers(d), family="parfail-failstate-%s" % hname))
        # a sibling whose own failure was caught inside its branch and whose recovery Task is outstanding (its slot holds a marker, not a result)
        a = chain(("A1", Task("f_A1", Catch=[{"ErrorEquals": ["States.ALL"], "Next": "A2", "ResultPath": "$.e"}])), ("A2", Task("f_A2")))
        d = chain(("P", Parallel([a, _branch("B", 1)], **h)), Z)
        w = _okworkers(d, {"f_A1": {"*": ERR("E9")}, "f_A2": {"*": [["delay", ["ok", "a2"]]]}, "f_B1": {"*": [["delay", ["err", "E1", "boom"]]]}})
        out.append(scenario("parfail-B-task-Acaught-recovering-%s" % hname, d, workers=w, family="parfail-recovering-sibling-%s" % hname))
        # a sibling that is waiting out a Retry interval (no request outstanding, a delegate timer armed) when the other branch fails
        a = chain(("A1", Task("f_A1", Retry=[{"ErrorEquals": ["E9"], "IntervalSeconds": 2, "MaxAttempts": 2, "BackoffRate": 1.0}])))
        d = chain(("P", Parallel([a, _branch("B", 1)], **h)), Z)
        w = _okworkers(d, {"f_A1": {"*": [["err", "E9", "again"], ["ok", "a-second-try"]]}, "f_B1": {"*": [["delay", ["err", "E1", "boom"]]]}})
        out.append(scenario("parfail-B-task-Aretrying-%s" % hname, d, workers=w, family="parfail-retrying-sibling-%s" % hname))
        # both branches fail (different errors)
        d = chain(("P", Parallel([_branch("A", 1), _branch("B", 1)], **h)), Z)
        w = _okworkers(d, {"f_A1": {"*": ERR("E1")}, "f_B1": {"*": ERR("E2")}})
        sc = scenario("parfail-both-%s" % hname, d, workers=w, family="parfail-both-%s" % hname)
        sc["expect_any_error"] = ["E1", "E2"]
        out.append(sc)
        # Map: one item fails, with and without MaxConcurrency
        it = chain(("I", Task("fi")))
        for mc in (0, 1):
            st = Map(it, MaxConcurrency=mc, **h) if mc else Map(it, **h)
            d = chain(("M", st), Z)
            w = {"fi": {"2": ERR(), "*": [["echo"]]}}
            out.append(scenario("mapfail-item2-mc%d-%s" % (mc, hname), d, workers=w, input=[1, 2, 3], family="mapfail-mc%d-%s" % (mc, hname)))
    # a *retried* fan-out whose first attempt left a sibling waiting out its own Retry interval: that stale delegate fires while the
    # second attempt's Tasks are outstanding (timed schedule class: time may pass while a worker is slow)
    a = chain(("A1", Task("f_A1", Retry=[{"ErrorEquals": ["E9"], "IntervalSeconds": 3, "MaxAttempts": 2, "BackoffRate": 1.0}])))
    d = chain(("P", Parallel([a, _branch("B", 1)], Retry=RETRY1)), Z)
    w = {"f_A1": {"*": [["err", "E9", "again"], ["ok", "a2"], ["ok", "a3"]]}, "f_B1": {"*": [["err", "E1", "boom"], ["delay", ["ok", "b2"]]]}}
    out.append(scenario("parfail-retried-B-then-ok-Aretrying", d, workers=w, family="parfail-retried-late-old-sibling", schedule="timed", delay_budget=1))
    if tier == "thorough":
        for hname, h in handlers.items():
            # three branches: the failure meets one sibling blocked in a Task and one in a Wait; two different failures and a bystander branch
            d = chain(("P", Parallel([_branch("A", 1), _branch("B", 1), _branch("C", 1, "wait")], **h)), Z)
            out.append(scenario("parfail3-A-task-Btask-Cwait-%s" % hname, d, workers=_okworkers(d, {"f_A1": {"*": ERR()}}), family="parfail3-task-wait-siblings-%s" % hname))
            d = chain(("P", Parallel([_branch("A", 1), _branch("B", 1), _branch("C", 2)], **h)), Z)
            sc = scenario("parfail3-both-Ctask-%s" % hname, d, workers=_okworkers(d, {"f_A1": {"*": ERR("E1")}, "f_B1": {"*": ERR("E2")}}), family="parfail3-both-%s" % hname)
            sc["expect_any_error"] = ["E1", "E2"]
            out.append(sc)
            # Map: every position of the failing item, with a MaxConcurrency window of 2 over 3 items
            it3 = chain(("I", Task("fi")))
            for pos in (1, 2, 3):
                d = chain(("M", Map(it3, MaxConcurrency=2, **h)), Z)
                out.append(scenario("mapfail3-item%d-mc2-%s" % (pos, hname), d, workers={"fi": {str(pos): ERR(), "*": [["echo"]]}}, input=[1, 2, 3], family="mapfail3-mc2-%s" % hname))
            # the failing branch is itself a fan-out (Map in Parallel / Parallel in Map) and the handler sits on the outer state
            d = chain(("P", Parallel([chain(("M", Map(chain(("I", Task("fi"))), ItemsPath="$.items"))), _branch("B", 1)], **h)), Z)
            out.append(scenario("parfail-innermap-item-%s" % hname, d, workers=_okworkers(d, {"fi": {"2": ERR(), "*": [["echo"]]}}), input={"items": [1, 2]}, family="parfail-inner-map-fails-%s" % hname))
            d = chain(("M", Map(chain(("Q", Parallel([_branch("A", 1), _branch("B", 1, "wait")]))), **h)), Z)
            out.append(scenario("mapfail-innerpar-%s" % hname, d, workers={"f_A1": {"1": ERR(), "*": [["echo"]]}}, input=[1, 2], family="mapfail-inner-par-fails-%s" % hname))
    # nested: Parallel[Task A fails || Map(Task)] and Parallel in Parallel
    it = chain(("I", Task("fi")))
    d = chain(("P", Parallel([_branch("A", 1), chain(("M", Map(it, ItemsPath="$.items")))])), Z)
    out.append(scenario("parfail-A-vs-map", d, workers={"f_A1": {"*": ERR()}, "fi": {"*": [["echo"]]}}, input={"items": [1, 2]}, family="parfail-nested-map"))
    d = chain(("P", Parallel([chain(("Q", Parallel([_branch("A", 1), _branch("B", 1)]))), _branch("C", 1)])), Z)
    out.append(scenario("parfail-inner", d, workers=_okworkers(d, {"f_A1": {"*": ERR()}}), family="parfail-nested-par"))
    d = chain(("P", Parallel([chain(("Q", Parallel([_branch("A", 1), _branch("B", 1)], Catch=[{"ErrorEquals": ["States.ALL"], "Next": "QZ", "ResultPath": "$.e"}])), ("QZ", Pass())), _branch("C", 1)])), Z)
    out.append(scenario("parfail-inner-caught", d, workers=_okworkers(d, {"f_A1": {"*": ERR()}}), family="parfail-nested-par-caught"))
    return out

# ------------------------------------------------------------------------------------------------------
def child_family(tier="quick"):
    """Parent/child executions and task-token callbacks (C15)."""
    out = []
    SFN = "arn:aws:states:local::states:"
    def launch(form, name="c1", **kw):
        res = {"start": SFN + "startExecution", "sync": SFN + "startExecution.sync", "sync2": SFN + "startExecution.sync:2",
               "sdk": "arn:aws:states:local::aws-sdk:sfn:startSyncExecution", "token": SFN + "startExecution.waitForTaskToken"}[form]
        st = {"Type": "Task", "Resource": res, "Parameters": {"StateMachineArn": sm_arn("c"), "Input": {"from": "parent", "n": 1}, "Name": name}, "ResultPath": "$.child"}
        st.update(kw)
        return st
    child_ok = chain(("CA", Task("fc")), ("CZ", Pass(Result="done", ResultPath="$.z")))
    child_fail = chain(("CA", Task("fc")), ("CF", Fail("E.child", "child failed")))
    child_wait = chain(("CW", Wait(10)), ("CZ", Pass()))
    child_slow = chain(("CA", Task("fslow")), ("CZ", Pass()))
    Z = ("Z", Pass())
    def add(name, parent, child, ctype="STANDARD", ptype="STANDARD", workers=None, form=None, **kw):
        w = {"fc": {"*": OK({"c": 1})}}
        w.update(workers or {})
        sc = multi(name, {"m": {"definition": parent, "type": ptype}, "c": {"definition": child, "type": ctype}},
                   [{"machine": "m", "name": "p1", "input": {"k": 1}}], workers=w, family=name, child_form=form,
                   child_arn=exec_arn("c", "c1"), parent_arn=exec_arn("m", "p1"), **kw)
        out.append(sc)
    add("child-async", chain(("L", launch("start")), Z), child_ok, form="start")
    # parent and child of different types: what is recorded for each is decided by its own type
    add("child-async-express-parent", chain(("L", launch("start")), Z), child_ok, ptype="EXPRESS", form="start-mixed")
    add("child-async-express-child", chain(("L", launch("start")), Z), child_ok, ctype="EXPRESS", form="start-mixed")
    for form in ("sync", "sync2"):
        add("child-%s-ok" % form, chain(("L", launch(form)), Z), child_ok, form=form)
        add("child-%s-fails" % form, chain(("L", launch(form)), Z), child_fail, form=form)
        add("child-%s-fails-caught" % form, chain(("L", launch(form, Catch=[{"ErrorEquals": ["States.TaskFailed"], "Next": "Z", "ResultPath": "$.err"}])), Z), child_fail, form=form)
    # the Task Resource given indirectly through the environment ("$NAME"): everything that depends on the resource form must use the resolved ARN
    add("child-sync2-resource-from-env", chain(("L", dict(launch("sync2"), Resource="$LSFVERIF_CHILD_RES")), Z), child_ok, form="sync2", env={"LSFVERIF_CHILD_RES": SFN + "startExecution.sync:2"})
    add("child-sync-resource-from-env", chain(("L", dict(launch("sync"), Resource="$LSFVERIF_CHILD_RES1")), Z), child_ok, form="sync", env={"LSFVERIF_CHILD_RES1": SFN + "startExecution.sync"})
    add("child-resource-env-missing", chain(("L", dict(launch("sync"), Resource="$LSFVERIF_NOT_SET")), Z), child_ok, form="invalid")
    add("child-sdk-express-ok", chain(("L", launch("sdk")), Z), child_ok, ctype="EXPRESS", form="sdk")
    add("child-sdk-express-fails", chain(("L", launch("sdk")), Z), child_fail, ctype="EXPRESS", form="sdk")
    add("child-sync-express-child", chain(("L", launch("sync")), Z), child_ok, ctype="EXPRESS", form="sync")
    # invalid combinations fail the task
    add("child-unknown-machine", chain(("L", dict(launch("sync"), Parameters={"StateMachineArn": sm_arn("ghost"), "Input": {}, "Name": "c1"})), Z), child_ok, form="invalid")
    add("child-sync-from-express", chain(("L", launch("sync")), Z), child_ok, ptype="EXPRESS", form="invalid")
    add("child-sdk-of-standard", chain(("L", launch("sdk")), Z), child_ok, form="invalid")
    add("child-no-arn", chain(("L", dict(launch("sync"), Parameters={"Input": {}})), Z), child_ok, form="invalid")
    # parent time-out while the child is blocked in a Wait / Task
    add("child-sync-parent-timeout-child-wait", chain(("L", launch("sync", TimeoutSeconds=2)), Z), child_wait, form="sync-timeout")
    add("child-sync-parent-timeout-child-task", chain(("L", launch("sync", TimeoutSeconds=2)), Z), child_slow, workers={"fslow": {"*": [["delay", ["ok", 1]]]}}, form="sync-timeout")
    add("child-sync-parent-timeout-caught", chain(("L", launch("sync", TimeoutSeconds=2, Catch=[{"ErrorEquals": ["States.Timeout"], "Next": "Z", "ResultPath": "$.err"}])), Z), child_wait, form="sync-timeout")
    # the child ends by its *own* execution time-out (blocked in a Wait / in a Task) while the parent waits for it without a time-out of its own
    cw = copy.deepcopy(child_wait); cw["TimeoutSeconds"] = 3
    cs = copy.deepcopy(child_slow); cs["TimeoutSeconds"] = 3
    for form in ("sync", "sync2"):
        add("child-%s-child-times-out-in-wait" % form, chain(("L", launch(form)), Z), cw, form="sync-child-timeout")
        add("child-%s-child-times-out-in-task" % form, chain(("L", launch(form)), Z), cs, workers={"fslow": {"*": [["delay", ["ok", 1]]]}}, form="sync-child-timeout")
    add("child-sync-child-times-out-caught", chain(("L", launch("sync", Catch=[{"ErrorEquals": ["States.ALL"], "Next": "Z", "ResultPath": "$.err"}])), Z), cw, form="sync-child-timeout")
    add("child-sdk-express-child-times-out", chain(("L", launch("sdk")), Z), cw, ctype="EXPRESS", form="sync-child-timeout")
    # it is the parent *execution* that runs out of time (machine-level TimeoutSeconds) while the child is blocked in a Task / Wait
    pm = chain(("L", launch("sync")), Z); pm["TimeoutSeconds"] = 2
    add("child-sync-parent-exec-timeout-child-task", pm, child_slow, workers={"fslow": {"*": [["delay", ["ok", 1]]]}}, form="sync-timeout")
    add("child-sync-parent-exec-timeout-child-wait", copy.deepcopy(pm), child_wait, form="sync-timeout")
    # the child is cancelled (its parent timed out) while it is itself inside a fan-out
    child_par = chain(("CP", Parallel([chain(("CW1", Wait(10))), chain(("CT1", Task("fslow")))])), ("CZ", Pass()))
    add("child-sync-parent-timeout-child-in-parallel", chain(("L", launch("sync", TimeoutSeconds=2)), Z), child_par, workers={"fslow": {"*": [["delay", ["ok", 1]]]}}, form="sync-timeout")
    # parent inside Parallel / Map
    add("child-sync-in-parallel", chain(("P", Parallel([chain(("L", launch("sync"))), chain(("B1", Task("fb")))])), Z), child_ok, workers={"fb": {"*": OK("b")}}, form="sync-nested")
    add("child-sync-in-parallel-sibling-fails", chain(("P", Parallel([chain(("L", launch("sync"))), chain(("B1", Task("fb")))])), Z), child_wait, workers={"fb": {"*": ERR()}}, form="sync-terminated")
    add("child-sync-in-map", chain(("M", Map(chain(("L", dict(launch("sync"), Parameters={"StateMachineArn": sm_arn("c"), "Input.$": "$", "Name.$": "$.nm"}))), ItemsPath="$.items")), Z), child_ok, form="sync-map",
        **{})
    out[-1]["starts"][0]["input"] = {"items": [{"nm": "c1"}, {"nm": "c2"}]}
    # no Parameters field: the state's input *is* the request (and stays the raw input that ResultPath is applied to); no Name given
    for form, res in (("sync2", "startExecution.sync:2"), ("start", "startExecution")):
        add("child-%s-no-parameters-unnamed" % form, chain(("L", {"Type": "Task", "Resource": SFN + res, "ResultPath": "$.child"}), Z), child_ok, form="%s-unnamed" % form)
        out[-1]["starts"][0]["input"] = {"StateMachineArn": sm_arn("c"), "Input": {"from": "parent", "n": 1}, "keep": [1, {"x": None}]}
    if tier == "thorough":
        # two synchronous children of one Map, one of which fails; a retried launch; a child launched by a child
        add("child-sync-in-map-one-fails", chain(("M", Map(chain(("L", dict(launch("sync"), Parameters={"StateMachineArn": sm_arn("c"), "Input.$": "$", "Name.$": "$.nm"}))), ItemsPath="$.items")), Z),
            chain(("CC", Choice([{"Variable": "$.bad", "BooleanEquals": True, "Next": "CF"}], default="CZ")), ("CF", Fail("E.child", "child failed")), ("CZ", Pass(Result="done", ResultPath="$.z", End=True))), form="sync-map")
        out[-1]["starts"][0]["input"] = {"items": [{"nm": "c1", "bad": False}, {"nm": "c2", "bad": True}]}
        # (no Parameters.Name: a retried launch with a fixed name would start the same execution name twice, which is the machine's own doing)
        add("child-sync-retried-launch", chain(("L", dict(launch("sync", Retry=[{"ErrorEquals": ["States.TaskFailed"], "IntervalSeconds": 1, "MaxAttempts": 1}]),
                                                          Parameters={"StateMachineArn": sm_arn("c"), "Input": {"from": "parent", "n": 1}})), Z), child_fail, form="sync-unnamed")
        add("child-sync-two-parents", chain(("L", dict(launch("sync"), Parameters={"StateMachineArn": sm_arn("c"), "Input": {"from": "parent"}, "Name.$": "$.cn"})), Z), child_ok, form="sync-map")
        out[-1]["starts"] = [{"machine": "m", "name": "p1", "input": {"cn": "c1"}}, {"machine": "m", "name": "p2", "input": {"cn": "c2"}}]
    # task-token callbacks on an rpcmessage task
    tok = {"Type": "Task", "Resource": "arn:aws:states:local::rpcmessage:invoke.waitForTaskToken", "TimeoutSeconds": 5,
           "Parameters": {"FunctionName": fn_arn("ft"), "Payload": {"token.$": "$$.Task.Token", "x": 1}}, "ResultPath": "$.cb"}
    def addtok(name, script, workers=None, state=None, **kw):
        sc = multi(name, {"m": {"definition": chain(("T", state or tok), Z)}}, [{"machine": "m", "name": "p1", "input": {"k": 1}}],
                   workers=workers or {"ft": {"*": NONE}}, family=name, parent_arn=exec_arn("m", "p1"), child_form="token", **kw)
        sc["script"] = [dict(st, op="start") for st in sc["starts"]] + script
        sc["starts"] = []
        out.append(sc)
    ok = {"op": "api", "action": "SendTaskSuccess", "params": {"output": "{\"cb\": 42}"}, "token_from": "ft", "needs_request": "ft", "tag": "valid"}
    fail = {"op": "api", "action": "SendTaskFailure", "params": {"error": "E.cb", "cause": "callback says no"}, "token_from": "ft", "needs_request": "ft", "tag": "valid-failure"}
    A42 = [["SUCCEEDED", {"cb": 42}]]
    addtok("token-success", [ok], allowed=A42)
    addtok("token-failure", [fail], allowed=[["FAILED", "E.cb"]])
    # SendTaskFailure whose optional members are left out: the task still fails (never a 5xx, never a success)
    addtok("token-failure-bare", [dict(fail, params={})], allowed=[["FAILED", "States.TaskFailed"]])
    addtok("token-failure-error-only", [dict(fail, params={"error": "E.cb"})], allowed=[["FAILED", "E.cb"]])
    addtok("token-failure-cause-only", [dict(fail, params={"cause": "only a cause"})], allowed=[["FAILED", "States.TaskFailed"]])
    # ... or are of the wrong JSON type: refused, and the valid callback that follows completes the task
    addtok("token-failure-wrong-types-then-valid", [dict(fail, params={"error": 5, "cause": "c"}, tag="malformed"), dict(fail, params={"error": "E.cb", "cause": ["c"]}, tag="malformed"),
                                                   dict(ok, params={"output": 5}, tag="malformed"), ok], allowed=A42)
    addtok("token-duplicate", [ok, dict(ok, params={"output": "{\"cb\": 43}"}, tag="duplicate")], allowed=A42)
    addtok("token-success-then-failure", [ok, dict(fail, tag="duplicate")], allowed=A42)
    addtok("token-forged-then-valid", [dict(ok, mangle="forge", tag="forged"), ok], allowed=A42)
    addtok("token-truncated-then-valid", [dict(ok, mangle="truncate", tag="truncated"), ok], allowed=A42)
    addtok("token-notbase64-then-valid", [dict(ok, mangle="notbase64", tag="notbase64"), ok], allowed=A42)
    # every way a token can be malformed, through both callback actions, before the valid callback
    # (a well-formed token that no task received is the known finding of token-forged-then-valid; SendTaskHeartbeat is not implemented)
    for act, base in (("success", ok), ("failure", fail)):
        addtok("token-malformed-%s-then-valid" % act, [dict(base, mangle=m, tag="malformed")
                                                      for m in ("truncate", "notbase64", "nosuffix", "nocolon", "binary", "suffix-only", "empty", "int", "list", "missing")] + [ok], allowed=A42)
    addtok("token-never", [], allowed=[["FAILED", "States.Timeout"]])
    # the worker answers the request itself (ignored) and no callback ever comes: the task still times out
    addtok("token-rpc-reply-never-callback", [], workers={"ft": {"*": [["delay", ["ok", {"ignored": True}]]]}}, allowed=[["FAILED", "States.Timeout"]])
    addtok("token-late", [dict(ok, after_quiet=True, tag="late")], allowed=[["FAILED", "States.Timeout"]])
    addtok("token-rpc-reply-before-callback", [ok], workers={"ft": {"*": [["delay", ["ok", {"ignored": True}]]]}}, allowed=A42)
    for nm, val in (("string", "accepted"), ("number", 7), ("zero", 0), ("array", [1]), ("null", None), ("false", False)):
        addtok("token-rpc-%s-reply-before-callback" % nm, [ok], workers={"ft": {"*": [["delay", ["ok", val]]]}}, allowed=A42)
    addtok("token-rpc-error-reply", [ok], workers={"ft": {"*": [["delay", ["err", "E.rpc", "worker failed"]]]}}, allowed=A42 + [["FAILED", "E.rpc"]])
    # the engine crashes and restarts while the token task is outstanding and its worker has answered (or is about to answer) the request
    # itself: however that answer and the redelivered Task event are ordered afterwards, and whether or not the orphaned-reply handler
    # has run before the callback comes, only the callback completes the task (or, the environment being slow, its time-out)
    cr_ = {"op": "crash_restart", "instance": 1, "needs_request": "ft"}
    addtok("token-crash-rpc-reply-then-callback", [cr_, dict(ok, after_idle=True)], workers={"ft": {"*": [["delay", ["ok", {"ignored": True}]]]}},
           allowed=A42 + [["FAILED", "States.Timeout"]], schedule="timed", delay_budget=1)
    addtok("token-crash-then-callback", [cr_, dict(ok, after_idle=True)], allowed=A42)
    # ... and the worker's answer is an error while the callback is also sent before the Task event has been redelivered: both are
    # parked under the same correlation id; the error answer wins or the callback does, nothing else
    addtok("token-crash-rpc-error-and-callback", [cr_, ok], workers={"ft": {"*": [["delay", ["err", "E.rpc", "worker failed"]]]}}, allowed=A42 + [["FAILED", "E.rpc"]])
    # a child execution launched with .waitForTaskToken: the parent's task completes by the callback (the token travels in the child's
    # input to the child's worker), not by the child's end
    ltok = {"Type": "Task", "Resource": SFN + "startExecution.waitForTaskToken", "TimeoutSeconds": 8, "ResultPath": "$.cb",
            "Parameters": {"StateMachineArn": sm_arn("c"), "Name": "c1", "Input": {"from": "parent", "token.$": "$$.Task.Token"}}}
    child_tok = chain(("CA", Task("ft")), ("CZ", Pass(Result="done", ResultPath="$.z")))
    for nm, scr, alw in (("success", [ok], A42), ("failure", [fail], [["FAILED", "E.cb"]]), ("never", [], [["FAILED", "States.Timeout"]])):
        sc = multi("token-child-launch-%s" % nm, {"m": {"definition": chain(("T", ltok), Z)}, "c": {"definition": child_tok}}, [{"machine": "m", "name": "p1", "input": {"k": 1}}],
                   workers={"ft": {"*": OK({"child": "ran"})}}, family="token-child-launch-%s" % nm, parent_arn=exec_arn("m", "p1"), child_form="token", allowed=alw, completes_without_callback=False)
        sc["script"] = [dict(st, op="start") for st in sc["starts"]] + scr
        sc["starts"] = []
        out.append(sc)
    addtok("token-caught", [fail], state=dict(tok, Catch=[{"ErrorEquals": ["E.cb"], "Next": "Z", "ResultPath": "$.err"}]), allowed=[["SUCCEEDED", None]])
    return out

def update_family(tier="quick"):
    """A definition replaced through UpdateStateMachine between two executions of the machine (same ARN, same state names): the first
    execution ran the old definition, the second runs the new one - nothing remembered per (machine, state name) may outlive the update."""
    from ref import asl as RA
    out = []
    Z = ("Z", Pass())
    echo = {"fi": {"*": [["echo"]]}, "f1": {"*": OK("from-f1")}, "f2": {"*": OK("from-f2")}, "f3": {"*": [["err", "E1", "x"], ["err", "E1", "x"], ["ok", "third"]]}}
    def add(name, v1, v2, inp, fan=False, inp2=None, **kw):
        inp2 = inp if inp2 is None else inp2
        sc = multi("update-" + name, {"m": {"definition": v1}}, [], workers=echo, family="update-" + name, **kw)
        sc["script"] = [{"op": "start", "machine": "m", "name": "e1", "input": inp},
                        {"op": "api", "action": "UpdateStateMachine", "params": {"stateMachineArn": sm_arn("m"), "definition": json.dumps(v2)}, "after_quiet": True, "tag": "update"},
                        {"op": "start", "machine": "m", "name": "e2", "input": inp2, "after_quiet": True}]
        exp = {}
        for nm, d, inp in (("e1", v1, inp), ("e2", v2, inp2)):
            try:
                r = RA.run(d, copy.deepcopy(inp), RA.ScriptedTasks(echo), context={"Execution": {"Input": copy.deepcopy(inp), "Name": nm}, "__epoch": 1900000000.0}, exec_timeout=300)
                exp[exec_arn("m", nm)] = {"status": r.status, "output": r.output, "error": r.error}
            except RA.Unjudged as e:
                exp[exec_arn("m", nm)] = {"status": None, "why": str(e)}
        sc["expect"] = exp
        sc["fanout"] = fan
        out.append(sc)
    add("pass-chain", chain(("A", Pass(Result=1, ResultPath="$.a")), Z), chain(("A", Pass(Result=2, ResultPath="$.a")), ("B", Pass(Result="new", ResultPath="$.b")), Z), {"k": 1})
    add("task-resource", chain(("T", Task("f1", ResultPath="$.r")), Z), chain(("T", Task("f2", ResultPath="$.r")), Z), {"k": 1})
    add("invoke-function", chain(("T", Invoke("f1", ResultPath="$.r")), Z), chain(("T", Invoke("f2", ResultPath="$.r")), Z), {"k": 1})
    add("choice-rule", chain(("C", Choice([{"Variable": "$.k", "NumericEquals": 1, "Next": "Y"}], default="Z")), ("Y", Pass(Result="y", End=True)), Z),
        chain(("C", Choice([{"Variable": "$.k", "NumericEquals": 2, "Next": "Y"}], default="Z")), ("Y", Pass(Result="y", End=True)), Z), {"k": 1})
    it = chain(("I", Task("fi")))
    add("map-maxconc-1-to-2", chain(("M", Map(it, MaxConcurrency=1)), Z), chain(("M", Map(it, MaxConcurrency=2)), Z), [1, 2, 3, 4], fan=True, maxc={"fi": 2})
    add("map-maxconc-2-to-1", chain(("M", Map(it, MaxConcurrency=2)), Z), chain(("M", Map(it, MaxConcurrency=1)), Z), [1, 2, 3], fan=True, maxc={"fi": 2})
    add("parallel-branch-added", chain(("P", Parallel([chain(("A1", Task("f1")))])), Z), chain(("P", Parallel([chain(("A1", Task("f1"))), chain(("B1", Task("f2")))])), Z), {"k": 1}, fan=True)
    add("map-processor-changed", chain(("M", Map(it)), Z), chain(("M", Map(chain(("I", Task("fi")), ("J", Pass(Result="j"))))), Z), [1, 2], fan=True)
    add("retry-attempts", chain(("T", Task("f3", Retry=[{"ErrorEquals": ["States.ALL"], "IntervalSeconds": 1, "MaxAttempts": 1}], Catch=CATCH_ALL)), Z),
        chain(("T", Task("f3", Retry=[{"ErrorEquals": ["States.ALL"], "IntervalSeconds": 1, "MaxAttempts": 2}], Catch=CATCH_ALL)), Z), {"k": 1}, inp2={"k": 2})
    return out
