"""
Canonical state fingerprint (DESIGN.md 4.2).  Over-fine is safe (costs time); over-coarse would hide bugs, so the
only abstractions are: (a) ids renamed by first occurrence, set-like containers ordered by their id-masked content;
(b) step numbers (enqueue / arm / due) replaced by their joint rank; (c) execution history kept as length +
multiset of events (the engine reads nothing but len(); the history monitor keeps what it needs in its own state);
(d) op log / notification log / traces dropped (observation only).
"""
import re, json, hashlib
from pika import _core as simcore
from .world import EPOCH

UUID_RE = re.compile(r"00000000-0000-4000-8000-[0-9a-f]{12}")

def mask(s):
    return UUID_RE.sub("U", s)

def dumps(x):
    return json.dumps(x, sort_keys=True, default=_default)

def _default(o):
    if isinstance(o, (bytes, bytearray)):
        return o.decode("utf8", "replace")
    if isinstance(o, (set, frozenset)):
        return sorted(o, key=repr)
    if hasattr(o, "items"):
        return dict(o.items())
    if hasattr(o, "__iter__"):
        return list(o)
    return repr(o)

def setlike(items):
    return sorted(items, key=lambda x: mask(dumps(x)))

def _closure_info(cb):
    f = getattr(cb, "__func__", cb)
    out = {}
    code = getattr(f, "__code__", None)
    cl = getattr(f, "__closure__", None)
    if code is None or not cl:
        return out
    for name, cell in zip(code.co_freevars, cl):
        try:
            v = cell.cell_contents
        except ValueError:
            continue
        if isinstance(v, (str, int, float, bool)) or v is None:
            out[name] = v
        elif hasattr(v, "correlation_id") and hasattr(v, "body"):
            out[name] = ["msg", v.correlation_id]
    return out

def _task_id(v, now):
    """What a cancellation handle refers to: a correlation id, or (for a Wait) the timer object - described by what it will
    do and when, never by its memory address."""
    if isinstance(v, (str, int, float, bool)) or v is None:
        return v
    if hasattr(v, "deadline") and hasattr(v, "callback"):
        return ["timer", round(v.deadline - now, 6), simcore.timer_kind(v.callback), bool(getattr(v, "live", True))]
    return type(v).__name__

def snapshot(w):
    b = w.broker
    now = w.clock.now
    steps = set()
    for q in b.queues.values():
        for m in q.messages:
            steps.add(m.enq_step)
    for inst in w.instances:
        if inst.alive:
            for t in w.timers(inst.conn):
                steps.add(t.arm_step)
                if t.due_step is not None:
                    steps.add(t.due_step)
            for cb, s in inst.conn.pending_calls:
                steps.add(s)
            for ch in inst.conn.channels:
                for r in ch.pending_returns:
                    steps.add(r[3])
    rank = {s: i for i, s in enumerate(sorted(steps))}

    def qmsg(m):
        return [m.body.decode("utf8", "replace"), m.redelivered, m.props.message_id, m.props.correlation_id,
                m.props.reply_to, None if m.expire_at is None else round(m.expire_at - now, 6), rank[m.enq_step]]

    snap = {"t": round(now - EPOCH, 6), "api": w.api_pos, "budget": w.delay_budget}
    snap["queues"] = {n: [qmsg(m) for m in q.messages] for n, q in b.queues.items() if q.messages}
    insts = []
    for inst in w.instances:
        if not inst.alive:
            insts.append({"alive": False, "gen": inst.generation})
            continue
        conn = inst.conn
        e, d = inst.engine, inst.dispatcher
        td = e.task_dispatcher
        ts = []
        for t in w.timers(conn):
            if w.is_heartbeat(t) and not (w.backstop or e.branch_metadata):
                continue
            ts.append([round(t.deadline - now, 6), t.delay, simcore.timer_kind(t.callback), _closure_info(t.callback),
                       rank[t.arm_step], None if t.due_step is None else rank[t.due_step]])
        unacked = []
        for ch in conn.channels:
            for tag, (qn, m, c) in ch.unacked.items():
                unacked.append([qn, m.body.decode("utf8", "replace"), m.props.message_id, m.props.correlation_id])
        bm = []
        for arn, md in e.branch_metadata.items():
            res = []
            for rid, r in md.results.items():
                res.append([rid, r.get("results"), r.get("ids"), r.get("state"), r.get("terminated")])
            bm.append([arn, md.expiry if md.expiry == 0 else round(md.expiry - now, 6), setlike(res)])
        insts.append({
            "alive": True, "gen": inst.generation,
            "boot": [getattr(inst, "boot_steps", 0), bool(getattr(conn, "defer_confirms", False))] if getattr(inst, "waiting", None) is not None else None,
            "timers": setlike(ts), "unacked": setlike(unacked),
            "unack_ids": setlike(list(d.unacknowledged_messages.keys())),
            "bm": setlike(bm),
            "pending": setlike([[k, v[1], v[2], v[4]] for k, v in td.pending_requests.items()]),
            "cancellers": setlike([[k, v.get("Type"), _task_id(v.get("TaskID"), now), v.get("Execution")] for k, v in td.cancellers.items()]),
            "orphans": setlike(list(td.orphaned_responses.keys())),
            "orph_sched": td.handle_orphaned_responses_is_scheduled,
            "uptime_short": (now - td.startup_time) * 1000 < (td.orphaned_response_retention_ms or 0),
            "hb": d.heartbeat_count % 60 if (w.backstop or e.branch_metadata) else None,
            "calls": [rank[s] for cb, s in conn.pending_calls],
            "returns": [[r[0].routing_key, r[1].correlation_id, rank[r[3]]] for ch in conn.channels for r in ch.pending_returns],
        })
    snap["inst"] = insts
    eng = None
    for inst in w.instances:
        if inst.alive:
            eng = inst.engine
            break
    if eng is not None:
        snap["exec"] = setlike([[k, dict(v)] for k, v in eng.executions.items()])
        hist = []
        for k, h in eng.execution_history.items():
            evs = []
            last = None
            for ev in h:
                ev = dict(ev)
                last = ev.pop("timestamp", None)
                ev.pop("id", None); ev.pop("previousEventId", None)
                evs.append(dumps(ev))
            hist.append([k, len(evs), sorted(mask(x) for x in evs), last])
        snap["hist"] = setlike(hist)
        snap["asl"] = hashlib.md5(dumps({k: dict(v) for k, v in eng.asl_store.items()}).encode()).hexdigest()
    snap["workers"] = {n: [wk.attempts, [list(h[:4]) for h in wk.held]] for n, wk in w.workers.items()}
    snap["mon"] = [m.state() for m in w.monitors]
    return snap

def fingerprint(w):
    s = dumps(snapshot(w))
    names = {}
    def ren(mo):
        k = mo.group(0)
        if k not in names:
            names[k] = "U%d" % len(names)
        return names[k]
    s = UUID_RE.sub(ren, s)
    return hashlib.blake2b(s.encode("utf8"), digest_size=12).hexdigest()
