"""Driving the real REST front ends (Quart / Flask test clients) from a World."""
import json, asyncio
from . import world as W

class ApiClient(object):
    def __init__(self, w, inst_idx=1, blocking=False, validate_asl=None):
        self.w = w
        inst = w.instances[inst_idx - 1]
        cfg = inst.config
        if validate_asl is not None:
            cfg = json.loads(json.dumps(cfg)); cfg["rest_api"]["validate_asl"] = validate_asl
        self.blocking = blocking
        if blocking:
            import asl_workflow_engine.rest_api as ra
            ts, us = W.TimeShim(), W.UuidShim()
            ra.time = ts; ra.datetime = W.VDateTime; ra.uuid = us
        else:
            ra = W.install_api()
        self.api = ra.RestAPI(inst.engine, inst.dispatcher, cfg)
        self.app = self.api.create_app()
        self.client = self.app.test_client()
        self.pending = []

    def call(self, action, params=None, raw=None, content_type="application/x-amz-json-1.0", target=None):
        body = raw if raw is not None else json.dumps(params if params is not None else {})
        headers = {"Content-Type": content_type, "x-amz-target": target or ("AWSStepFunctions." + action)}
        if self.blocking:
            r = self.client.post("/", data=body, headers=headers)
            text = r.get_data(as_text=True)
            status = r.status_code
        else:
            async def go():
                r = await self.client.post("/", data=body, headers=headers)
                return r.status_code, await r.get_data(as_text=True)
            status, text = W._loop.run_until_complete(go())
        try:
            js = json.loads(text)
        except ValueError:
            js = None
        return status, js, text

    def start_async(self, action, params):
        """For StartSyncExecution: begin the request and let it block on its future; finish() collects the answer."""
        body = json.dumps(params)
        headers = {"Content-Type": "application/x-amz-json-1.0", "x-amz-target": "AWSStepFunctions." + action}
        async def go():
            r = await self.client.post("/", data=body, headers=headers)
            return r.status_code, await r.get_data(as_text=True)
        task = W._loop.create_task(go())
        self.pump()
        return task

    def pump(self, n=20):
        for _ in range(n):
            W._loop.run_until_complete(asyncio.sleep(0))

    def finish(self, task):
        self.pump()
        if not task.done():
            return None
        status, text = task.result()
        try:
            js = json.loads(text)
        except ValueError:
            js = None
        return status, js, text
