"""C05 - Parallel and Map joins are order-independent, complete and concurrency-bounded."""
from . import common
from harness import corpus
PROP = "C05"
MONITORS = ("M-join", "M-ref")
def scenarios(tier):
    # (and a fan-out state whose definition is replaced between two executions)
    return corpus.fanout_ok_family(tier) + [s for s in corpus.update_family(tier) if s.get("fanout")]
def run(tier, seed):
    return common.engine_check(PROP, scenarios(tier), MONITORS, tier, seed)
