"""C12 - InputPath/OutputPath/ResultPath obey the filter laws and never corrupt data (small-scope exhaustive enumeration)."""
import copy, json, itertools, multiprocessing, re
from . import common
from ref import jsonpath as R

PROP = "C12"
KEYS = ["a", "b", "a b", "k.l", "0"]
LEAVES = [0, 1, False, None, "", "s", [], {}]
SEGS = [".a", ".b", "['a']", "['a b']", "['k.l']", "['0']", "[0]", "[1]"]

def docs(tier):
    out = [0, "s", None, [], {}]
    for k in KEYS:
        for v in LEAVES:
            out.append({k: v})
    for k in KEYS[:3]:
        for k2 in KEYS:
            for v in (0, False, None, {}):
                out.append({k: {k2: v}})
    for v1, v2 in itertools.product([0, None, {"b": 1}], repeat=2):
        out.append({"a": [v1, v2]})
    for v1, v2 in itertools.product(LEAVES[:6], repeat=2):
        out.append({"a": v1, "b": v2})
    for v in LEAVES + [{"a": 1}, {"a": {"b": 2}}]:
        out.append([v])
    for v1, v2 in itertools.product([0, False, {"a": 1}, [1]], repeat=2):
        out.append([v1, v2])
    if tier == "thorough":
        for k in KEYS:
            for k2 in KEYS:
                for k3 in KEYS[:3]:
                    for v in (1, None, []):
                        out.append({k: {k2: {k3: v}}})
        for v1, v2, v3 in itertools.product(LEAVES, repeat=3):
            out.append({"a": v1, "b": {"a": v2, "a b": v3}})
            out.append({"a": [v1, {"b": v2}], "k.l": v3})
    return [json.loads(json.dumps(d)) for d in out]   # no object shared inside or between documents

def paths(tier):
    out = ["$"]
    maxlen = 3
    for n in range(1, maxlen + 1):
        for segs in itertools.product(SEGS, repeat=n):
            out.append("$" + "".join(segs))
    return out

def subtrees(d):
    """(access path as list of keys) of every container strictly inside d."""
    out = []
    def rec(x, acc):
        if isinstance(x, dict):
            for k, v in x.items():
                if isinstance(v, (dict, list)):
                    out.append(acc + [k]); rec(v, acc + [k])
        elif isinstance(x, list):
            for i, v in enumerate(x):
                if isinstance(v, (dict, list)):
                    out.append(acc + [i]); rec(v, acc + [i])
    rec(d, [])
    return out

def follow(d, acc):
    for k in acc:
        d = d[k]
    return d

_engine = None
def engine():
    global _engine
    if _engine is None:
        from harness import world
        world.install()
        import asl_workflow_engine.state_engine_paths as sp
        import asl_workflow_engine.asl_exceptions as ex
        _engine = (sp, ex)
    return _engine

def finite(x):
    try:
        json.dumps(x)
        return True
    except (ValueError, RecursionError):
        return False

def engine_tokens(path):
    """The implementation's reference-path tokeniser as it stands (model of the known quote-keeping defect)."""
    return re.findall(r"[^$.[\]]+", path)

def eval_read(doc, path):
    sp, ex = engine()
    d0 = copy.deepcopy(doc)
    try:
        got = ("value", sp.apply_jsonpath(d0, path))
    except ex.PathMatchFailure:
        got = ("nomatch",)
    except Exception as e:
        got = ("raise", type(e).__name__)
    mutated = d0 != doc
    try:
        want = ("value", R.get(doc, path))
    except R.NoMatch:
        want = ("nomatch",)
    return got, want, mutated

def eval_put(doc, path, rkind):
    """rkind: ('fresh', value) | ('self',) | ('sub', access path)"""
    sp, ex = engine()
    d1 = copy.deepcopy(doc)
    if rkind[0] == "fresh":
        result = copy.deepcopy(rkind[1]); rval = rkind[1]
    elif rkind[0] == "self":
        result = d1; rval = doc
    else:
        result = follow(d1, rkind[1]); rval = follow(doc, rkind[1])
    try:
        out = sp.apply_resultpath(d1, result, path)
        got = ("value", out) if finite(out) else ("cyclic",)
    except ex.ResultPathMatchFailure:
        # a placement that is refused must leave the document as it was (the state's Catcher then works on the raw input)
        got = ("unplaceable",) if (rkind[0] != "fresh" or json.dumps(d1, sort_keys=True) == json.dumps(doc, sort_keys=True)) else ("unplaceable-but-modified", d1)
    except Exception as e:
        got = ("raise", type(e).__name__)
    try:
        want = ("value", R.put(doc, path, rval))
    except R.Unplaceable:
        want = ("unplaceable",)
    return got, want

def same(a, b):
    return json.dumps(a, sort_keys=True) == json.dumps(b, sort_keys=True) if a[0] == "value" and b[0] == "value" else a == b

def read_defect_model(doc, path):
    """Known-wrong behaviours of the read path, as exact predictions: (class, predicted result) or None."""
    if doc is None:
        return ("read-null-document-yields-empty-object", ("value", {}))
    quoted = re.findall(r"\['([^']*)'\]", path)
    if any("." in q for q in quoted):
        return ("read-bracket-quoted-dotted-name-never-matches", ("nomatch",))
    toks = R.tokens(path)
    if any((isinstance(t, str) and t.isdigit()) or isinstance(t, int) for t in toks):
        # the JSONPath library does not tell [0] from ['0']: either form indexes arrays and reads members named "0"
        cur = doc
        try:
            for t in toks:
                if isinstance(cur, list) and isinstance(t, str) and t.isdigit():
                    t = int(t)
                elif isinstance(cur, dict) and isinstance(t, int):
                    t = str(t)
                cur = R.get_tokens(cur, [t])
            return ("read-index-and-digit-member-name-confused", ("value", cur))
        except R.NoMatch:
            return ("read-index-and-digit-member-name-confused", ("nomatch",))
    return None

def classify_read(doc, path, got, want):
    if got[0] == "raise":
        return "read-raises-%s" % got[1]
    model = read_defect_model(doc, path)
    if model is not None and same(got, model[1]):
        return model[0]
    return "read-wrong"

def classify_put(doc, path, rkind, got, want):
    if got[0] == "raise":
        return "put-raises-%s" % got[1]
    if got[0] == "cyclic":
        return "put-cyclic-alias"
    if got[0] == "unplaceable-but-modified":
        return "put-refused-but-document-modified"
    return "put-wrong"

def _chunk(args):
    tier, lo, hi = args
    ds = docs(tier)[lo:hi]
    ps = paths(tier)
    n = 0
    nontrivial = set()
    mism = {}
    def note(cls, detail, rp):
        e = mism.get(cls)
        if e is None:
            mism[cls] = [1, detail, rp]
        else:
            e[0] += 1
            if len(json.dumps(rp)) < len(json.dumps(e[2])):
                e[1], e[2] = detail, rp
    for doc in ds:
        subs = subtrees(doc) if isinstance(doc, (dict, list)) else []
        rkinds = [("fresh", 7), ("fresh", {"n": [1]}), ("self",)] + [("sub", s) for s in subs[:3]]
        for path in ps:
            got, want, mutated = eval_read(doc, path)
            n += 1
            if want[0] == "value":
                nontrivial.add(("r", json.dumps(doc, sort_keys=True), path))
            if mutated:
                note("read-mutates-input", "read of %s mutated %r" % (path, doc), {"op": "read", "doc": doc, "path": path})
            if not same(got, want):
                note(classify_read(doc, path, got, want), "read %s of %s -> %r, expected %r" % (path, json.dumps(doc), got, want),
                     {"op": "read", "doc": doc, "path": path})
            for rk in (rkinds if doc is not None else []):
                got, want = eval_put(doc, path, rk)
                n += 1
                if want[0] == "value":
                    nontrivial.add(("p", json.dumps(doc, sort_keys=True), path, json.dumps(rk)))
                if not same(got, want):
                    note(classify_put(doc, path, rk, got, want), "put %s into %s at %s -> %r, expected %r" % (rk, json.dumps(doc), path, got, want),
                         {"op": "put", "doc": doc, "path": path, "rkind": list(rk)})
    return n, len(nontrivial), mism

def extra_laws(cr):
    """null / '$' / '$$' / ResultPath null and '$$' laws on a handful of documents."""
    sp, ex = engine()
    n = 0
    ctx = {"Execution": {"Name": "e", "Input": {"q": [1, 0]}}, "State": {"Name": "S"}}
    for doc in docs("quick")[:80]:
        d0 = copy.deepcopy(doc)
        checks = [
            ("null-path-selects-empty", lambda: sp.apply_path(d0, ctx, None), {}),
            ("dollar-selects-input", lambda: sp.apply_path(d0, ctx, "$"), doc),
            ("context-path", lambda: sp.apply_path(d0, ctx, "$$.Execution.Input.q[1]"), 0),
            ("context-root", lambda: sp.apply_path(d0, ctx, "$$.State.Name"), "S"),
            ("resultpath-null-discards", lambda: sp.apply_resultpath(d0, 5, None), doc if doc is not None else {}),
            ("resultpath-dollar-replaces", lambda: sp.apply_resultpath(d0, 5, "$"), 5),
        ]
        for name, fn, want in checks:
            n += 1
            try:
                got = fn()
            except Exception as e:
                got = "raise:" + type(e).__name__
            if json.dumps(got, sort_keys=True, default=repr) != json.dumps(want, sort_keys=True) or d0 != doc:
                sig = "law|" + name
                cr.add(sig, "%s on %r -> %r, expected %r" % (name, doc, got, want), {"kind": "law", "property": PROP, "signature": sig, "law": name, "doc": doc}, size=len(json.dumps(doc)))
        n += 1
        try:
            sp.apply_resultpath(copy.deepcopy(doc), 1, "$$.x")
            got = "accepted"
        except ex.ResultPathMatchFailure:
            got = "unplaceable"
        except Exception as e:
            got = "raise:" + type(e).__name__
        if got != "unplaceable":
            sig = "law|resultpath-context-refused"
            cr.add(sig, "ResultPath $$.x on %r -> %s" % (doc, got), {"kind": "law", "property": PROP, "signature": sig, "law": "resultpath-context-refused", "doc": doc}, size=1)
        n += 1
        try:
            sp.apply_path(copy.deepcopy(doc), ctx, "$$.Nope.x")
            got = "value"
        except ex.PathMatchFailure:
            got = "nomatch"
        except Exception as e:
            got = "raise:" + type(e).__name__
        if got != "nomatch":
            sig = "law|context-nomatch"
            cr.add(sig, "$$.Nope.x -> %s" % got, {"kind": "law", "property": PROP, "signature": sig, "law": "context-nomatch", "doc": doc}, size=1)
    # an input document that has the members of the Context Object (an earlier state may well carry a token, an item index ... along
    # in the data): '$' paths read the input, '$$' paths the context, and only the context's task token is made opaque
    import base64
    shaped = {"Task": {"Token": "input-token"}, "Execution": {"Input": {"q": [7, 8]}, "Name": "input-name"}, "State": {"Name": "input-state", "RetryCount": 9},
              "Map": {"Item": {"Index": 3, "Value": "input-value"}}, "StateMachine": {"Id": "input-id"}}
    ctx2 = {"Task": {"Token": "context-token"}, "Execution": {"Input": {"q": [1, 0]}, "Name": "context-name"}, "State": {"Name": "context-state", "RetryCount": 1},
            "Map": {"Item": {"Index": 0, "Value": "context-value"}}, "StateMachine": {"Id": "context-id"}}
    def leaves(d, pre=""):
        yield pre
        if isinstance(d, dict):
            for k, v in d.items():
                yield from leaves(v, pre + "." + k)
        elif isinstance(d, list):
            for i, v in enumerate(d):
                yield from leaves(v, pre + "[%d]" % i)
    for lp in sorted(set(leaves(shaped)) | set(leaves(ctx2))):
        for root, src in (("$", shaped), ("$$", ctx2)):
            n += 1
            want = follow_path(src, lp)
            if root == "$$" and lp == ".Task.Token":
                want = base64.b64encode(b"context-token").decode()
            d0, c0 = copy.deepcopy(shaped), copy.deepcopy(ctx2)
            try:
                got = sp.apply_path(d0, c0, root + lp)
            except Exception as e:
                got = "raise:" + type(e).__name__
            if json.dumps(got, sort_keys=True, default=repr) != json.dumps(want, sort_keys=True) or d0 != shaped or c0 != ctx2:
                sig = "law|input-shaped-like-context|%s" % ("input" if root == "$" else "context")
                cr.add(sig, "apply_path(input, context, %r) -> %r, expected %r (input %r, context %r)" % (root + lp, got, want, shaped, ctx2),
                       {"kind": "law", "property": PROP, "signature": sig, "law": "input-shaped-like-context", "doc": shaped}, size=len(lp))
    return n

def follow_path(d, lp):
    for m in re.findall(r"\.([A-Za-z]+)|\[(\d+)\]", lp):
        d = d[m[0]] if m[0] else d[int(m[1])]
    return d

EXEC_INPUTS = [{"a": {"n": 1, "k": [1, 2]}, "b": "keep"}, {"a": [5], "c": None}, {"a": 7}]

def exec_cases():
    """Single-state executions: every combination of InputPath x ResultPath x OutputPath on Pass / Task / Parallel / Map."""
    import itertools
    FA = "arn:aws:rpcmessage:local::function:f"
    out = []
    for kind in ("Pass", "PassResult", "Task", "Parallel", "Map"):
        for ip, rp, op in itertools.product(("absent", "$.a", None, "$"), ("absent", "$.r", "$.a.n", None, "$"), ("absent", "$.a", None)):
            if kind == "Pass":
                st = {"Type": "Pass"}
            elif kind == "PassResult":
                st = {"Type": "Pass", "Result": {"res": [1]}}
            elif kind == "Task":
                st = {"Type": "Task", "Resource": FA}
            elif kind == "Parallel":
                st = {"Type": "Parallel", "Branches": [{"StartAt": "B", "States": {"B": {"Type": "Pass", "End": True}}}]}
            else:
                st = {"Type": "Map", "ItemsPath": "$.k", "ItemProcessor": {"StartAt": "I", "States": {"I": {"Type": "Pass", "End": True}}}}
            if ip != "absent": st["InputPath"] = ip
            if rp != "absent": st["ResultPath"] = rp
            if op != "absent": st["OutputPath"] = op
            st["Next"] = "CTX"
            d = {"StartAt": "FWD", "States": {"FWD": {"Type": "Pass", "Next": "S"}, "S": st,
                                              "CTX": {"Type": "Pass", "Parameters": {"out.$": "$", "orig.$": "$$.Execution.Input"}, "End": True}}}
            for ii in range(len(EXEC_INPUTS)):
                out.append((d, ii))
    return out

def _exec_batch(args):
    lo, hi = args
    cs = exec_cases()[lo:hi]
    res = []
    while len(res) < len(cs):
        res.extend(_exec_world(cs[len(res):]))
    return res

def _exec_world(cs):
    from harness.world import World, exec_arn
    sc = {"name": "c12-exec", "machines": {}, "starts": [], "record_sites": False, "workers": {"f": {"*": [["ok", {"t": [0]}]]}}, "horizon": 1e9}
    for idx, (d, ii) in enumerate(cs):
        sc["machines"]["m%d" % idx] = {"definition": d}
        sc["starts"].append({"machine": "m%d" % idx, "name": "e", "input": EXEC_INPUTS[ii], "after_quiet": True})
    w = World(sc); w.run(max_steps=1000000, runaway=3000)
    ndone = len(cs) if not w.runaway else max(w.api_pos, 1)
    got = {}
    for n in w.notes:
        det = n["body"]["detail"]
        if det["status"] != "RUNNING":
            got[det["executionArn"]] = [det["status"], json.loads(det["output"]) if det.get("output") is not None else None, det.get("error")]
    w.close()
    return [None if (w.runaway and idx == ndone - 1) else got.get(exec_arn("m%d" % idx, "e")) for idx in range(ndone)]

def exec_part(cr):
    from ref import asl as RA
    from .c01 import loose_eq
    cs = exec_cases()
    n = len(cs)
    step = 150
    ctx = multiprocessing.get_context("fork")
    with ctx.Pool(common.JOBS) as pool:
        outs = pool.map(_exec_batch, [(lo, min(n, lo + step)) for lo in range(0, n, step)], chunksize=1)
    got = [g for o in outs for g in o]
    judged = 0
    for (d, ii), g in zip(cs, got):
        inp = copy.deepcopy(EXEC_INPUTS[ii])
        try:
            want = RA.run(d, inp, RA.ScriptedTasks({"f": {"*": [["ok", {"t": [0]}]]}}), context={"Execution": {"Input": copy.deepcopy(inp), "Name": "e"}})
        except RA.Unjudged:
            continue
        judged += 1
        ok = g is not None and g[0] == want.status and (loose_eq(g[1], want.output) if want.status == "SUCCEEDED" else
                                                          (g[2] in RA.RUNTIME_CLASS if want.error in RA.RUNTIME_CLASS else g[2] == want.error))
        if not ok:
            st = d["States"]["S"]
            sig = "exec|%s" % st["Type"]
            cr.add(sig, "state %s on input %s -> %r, reference %s" % (json.dumps(st), json.dumps(inp), g, want.key()),
                   {"kind": "exec", "property": PROP, "signature": sig, "definition": d, "input_index": ii}, size=len(json.dumps(st)))
    return n, judged

def run(tier, seed):
    cr = common.CheckResult(PROP)
    nd = len(docs(tier))
    step = max(1, nd // (common.JOBS * 4))
    chunks = [(tier, lo, min(nd, lo + step)) for lo in range(0, nd, step)]
    ctx = multiprocessing.get_context("fork")
    with ctx.Pool(common.JOBS) as pool:
        outs = pool.map(_chunk, chunks, chunksize=1)
    n = sum(o[0] for o in outs)
    nontrivial = sum(o[1] for o in outs)
    for _, _, mism in outs:
        for cls, (cnt, detail, rp) in mism.items():
            sig = "path|" + cls
            rp = dict(rp, kind="path", property=PROP, signature=sig)
            cr.add(sig, detail, rp, size=len(json.dumps(rp)))
            cr.findings[sig].count += cnt - 1
    n += extra_laws(cr)
    en, ej = exec_part(cr)
    n += en
    nontrivial += ej
    cr.coverage = {
        "single_state_executions": en, "single_state_executions_judged": ej,
        "evaluations": n, "distinct_nontrivial": nontrivial,
        "rule": "all %d documents of the tier's alphabet x all %d reference paths of length <= 3 over {.a .b ['a'] ['a b'] ['k.l'] ['0'] [0] [1]} "
                "(read law) x results {fresh scalar, fresh object, the input itself, up to 3 sub-trees of the input} (placement laws); "
                "non-trivial = the reference defines a value (path matches / is placeable); oracle ref/jsonpath.py. Plus single-state executions through the real engine: "
                "{Pass, Pass+Result, Task, Parallel, Map} x InputPath {absent,$.a,null,$} x ResultPath {absent,$.r,$.a.n,null,$} x OutputPath {absent,$.a,null} x 3 inputs, followed by a state that "
                "reports the output and $$.Execution.Input; oracle ref/asl.py" % (nd, len(paths(tier))),
        "samples": [{"doc": {"a": {"a b": 0}}, "path": "$.a['a b']", "op": "read"}, {"doc": {"a": [0, {"b": 1}]}, "path": "$.a[1].b", "op": "put", "result": "the input itself"}],
        "exhaustive": True, "documents": nd, "paths": len(paths(tier)),
    }
    cr.assumptions = ["reference ref/jsonpath.py (definite reference paths only)"]
    return cr

def replay(rp):
    if rp["kind"] == "path":
        if rp["op"] == "read":
            got, want, mutated = eval_read(rp["doc"], rp["path"])
            bad = mutated or not same(got, want)
        else:
            got, want = eval_put(rp["doc"], rp["path"], tuple(rp["rkind"]))
            bad = not same(got, want)
        print(("REPRODUCED property=C12" if bad else "not reproduced") + ": %s %s on %s -> %r, expected %r" % (rp["op"], rp["path"], json.dumps(rp["doc"]), got, want))
        return 1 if bad else 0
    cr = common.CheckResult(PROP)
    extra_laws(cr)
    if rp.get("kind") == "exec":
        exec_part(cr)
    bad = rp["signature"] in cr.findings
    print("REPRODUCED property=C12 %s" % rp["signature"] if bad else "not reproduced")
    return 1 if bad else 0
