"""C17 - names and ARNs round-trip and link executions to their state machine (exhaustive over a small alphabet)."""
import json, itertools, multiprocessing
from . import common

PROP = "C17"
ALPHA = ["a", "0", ":", "/", ".", "-", "_", " "] + list("<>{}[]?*\"#%\\^|~`$&,;")

def ref_split(arn):
    """Reference: an ARN is arn:partition:service:region:account:resource, the resource optionally typed as type:name or type/name."""
    parts = arn.split(":", 5)
    return parts

def engine():
    from harness import world
    world.install()
    from asl_workflow_engine import arn as A
    ra = world.install_api()
    return A, ra

def part_a(cr):
    """create_arn / parse_arn over all part combinations."""
    A, ra = engine()
    n = 0
    pools = {"partition": ["aws", "aws-cn"], "service": ["states", "iam"], "region": ["local", ""], "account": ["0123456789", ""],
             "resource_type": ["stateMachine", "execution", None], "resource": ["m", "m.x-y_z", "m:e", "role/r", "a/b:c", "m:e:f"]}
    keys = list(pools)
    for combo in itertools.product(*[pools[k] for k in keys]):
        parts = dict(zip(keys, combo))
        n += 1
        s = A.create_arn(**parts)
        want = "arn:%s:%s:%s:%s:%s" % (parts["partition"], parts["service"], parts["region"], parts["account"],
                                       (parts["resource_type"] + ":" if parts["resource_type"] else "") + parts["resource"])
        if s != want:
            cr.add("arn|create", "create_arn(%r) -> %r, expected %r" % (parts, s, want), {"kind": "arn", "property": PROP, "signature": "arn|create", "parts": parts}, size=1)
            continue
        p = A.parse_arn(s)
        # parsing is a pure function of the text: what a caller does with the returned parts (the front ends edit them to derive an
        # execution ARN) is not seen by the next caller, and building an ARN from parts leaves the parts alone
        import copy as _copy
        p0 = _copy.deepcopy(p)
        built = A.create_arn(p)
        same_after_create = p == p0
        p["resource_type"] = "execution"; p["resource"] = str(p.get("resource")) + ":scribble"; p["account"] = "999"
        p2 = A.parse_arn(s)
        if p2 != p0 or not same_after_create or p2 is p:
            cr.add("arn|parse-not-pure", "parse_arn(%r) gave %r, and after the caller edited that result %r (create_arn left its argument alone: %s)" % (s, p0, p2, same_after_create),
                   {"kind": "arn", "property": PROP, "signature": "arn|parse-not-pure", "parts": parts}, size=1)
        p = _copy.deepcopy(p0)
        # (a resource containing '/' is outside the property: the API refuses such names, and role ARNs are only ever parsed)
        if "/" not in parts["resource"] and A.create_arn(p) != s:
            cr.add("arn|parse-create", "create_arn(parse_arn(%r)) -> %r" % (s, A.create_arn(p)), {"kind": "arn", "property": PROP, "signature": "arn|parse-create", "parts": parts}, size=1)
        # typed resources whose name has no separator of its own come back exactly
        if parts["resource_type"] and not any(c in parts["resource"] for c in ":/"):
            back = {k: p[k] for k in keys}
            if back != parts:
                cr.add("arn|create-parse", "parse_arn(create_arn(%r)) -> %r" % (parts, back), {"kind": "arn", "property": PROP, "signature": "arn|create-parse", "parts": parts}, size=1)
    return n

def names(maxlen):
    out = []
    for n in range(0, maxlen + 1):
        for t in itertools.product(ALPHA, repeat=n):
            out.append("".join(t))
    return out

def part_b(cr, tier):
    """Every name the validator accepts yields ARNs that split back into their parts."""
    A, ra = engine()
    n = acc = 0
    maxlen = 2 if tier == "quick" else 3
    pool = names(maxlen) + ["n" * 79, "n" * 80, "n" * 81, "a" * 40 + "." + "b" * 39, 5, None, ["a"]]
    for nm in pool:
        n += 1
        ok = bool(ra.valid_name(nm))
        if not ok:
            continue
        acc += 1
        arn = A.create_arn(service="states", region="local", account="0123456789", resource_type="stateMachine", resource=nm)
        p = A.parse_arn(arn)
        bad = (p["resource"] != nm or p["resource_type"] != "stateMachine" or A.create_arn(p) != arn or not ra.valid_state_machine_arn(arn))
        for en in ("e", nm):
            earn = A.create_arn(service="states", region="local", account="0123456789", resource_type="execution", resource=nm + ":" + en)
            pe = A.parse_arn(earn)
            # the derivation used by the engine: split at the last ':' and retag
            head, _, tail = earn.rpartition(":")
            ph = A.parse_arn(head); ph["resource_type"] = "stateMachine"
            if tail != en or A.create_arn(ph) != arn or pe["resource"] != nm + ":" + en or not ra.valid_execution_arn(earn):
                bad = True
        if bad:
            sig = "name|accepted-name-breaks-round-trip"
            cr.add(sig, "valid_name accepts %r but its ARNs do not round-trip" % (nm,), {"kind": "name", "property": PROP, "signature": sig, "name": nm}, size=len(str(nm)))
    return n, acc

def _engine_case(args):
    """Run executions whose machine / execution names come from the accepted set and compare every derived identifier."""
    mnames, enames, typ = args
    from harness.world import World
    from harness.api import ApiClient
    out = []
    w = World({"name": "c17", "machines": {}, "record_sites": False, "workers": {"f": {"*": [["ok", 1]]}}})
    api = ApiClient(w)
    d = {"StartAt": "A", "States": {"A": {"Type": "Pass", "End": True}}}
    for m in mnames:
        st, js, _ = api.call("CreateStateMachine", {"name": m, "roleArn": "arn:aws:iam::0123456789:role/r", "definition": json.dumps(d), "type": typ})
        if st != 200:
            out.append(("create-refused", m, None, st))
            continue
        sarn = js["stateMachineArn"]
        for e in enames:
            st, js, _ = api.call("StartExecution", {"stateMachineArn": sarn, "name": e, "input": "{}"})
            if st != 200:
                out.append(("start-refused", m, e, st))
                continue
            earn = js["executionArn"]
            n0 = len(w.notes)
            w.run(max_steps=500)
            notes = w.notes[n0:]
            want_e = "arn:aws:states:local:0123456789:execution:%s:%s" % (m, e)
            if earn != want_e:
                out.append(("minted-arn", m, e, earn))
            for nt in notes:
                det = nt["body"]["detail"]
                if det.get("executionArn") != want_e or det.get("stateMachineArn") != sarn or det.get("name") != e or nt["key"] != sarn + "." + det.get("status") \
                        or nt["body"].get("resources") != [want_e]:
                    out.append(("notification", m, e, [det.get("executionArn"), det.get("stateMachineArn"), det.get("name"), nt["key"]]))
            if len(notes) != 2:
                out.append(("notification-count", m, e, len(notes)))
            if typ == "STANDARD":
                rec = w.executions().get(want_e)
                if not rec or rec.get("stateMachineArn") != sarn or rec.get("name") != e or rec.get("executionArn") != want_e:
                    out.append(("record", m, e, rec and [rec.get("stateMachineArn"), rec.get("name")]))
                st2, js2, _ = api.call("DescribeStateMachineForExecution", {"executionArn": want_e})
                if st2 != 200 or js2.get("stateMachineArn") != sarn:
                    out.append(("sm-for-execution", m, e, st2))
    w.close()
    return out

def _recovery_case(args):
    """The places that derive the state machine from the execution ARN instead of being told: the record rebuilt after a
    restart, the details of an execution that has no record (EXPRESS, or STANDARD ended right after a restart), and the
    time-out backstop driven by the heart-beat.  (machine name, execution name, type, mode)"""
    m, e, typ, mode = args
    from harness.world import World, sm_arn, exec_arn
    from harness.api import ApiClient
    FA = "arn:aws:rpcmessage:local::function:"
    Z = {"Type": "Pass", "End": True}
    if mode == "restart-then-timeout":
        # a branch Task whose worker never answers, interrupted by a restart: only the heart-beat driven backstop ends the execution
        d = {"TimeoutSeconds": 5, "StartAt": "P", "States": {"P": {"Type": "Parallel", "Next": "Z", "Branches": [{"StartAt": "T", "States": {"T": {"Type": "Task", "Resource": FA + "f", "End": True}}}]}, "Z": Z}}
    elif mode == "restart-in-branch":
        d = {"StartAt": "P", "States": {"P": {"Type": "Parallel", "Next": "Z", "Branches": [{"StartAt": "T", "States": {"T": {"Type": "Task", "Resource": FA + "f", "End": True}}}]}, "Z": Z}}
    elif mode == "restart-then-fail":
        d = {"StartAt": "T", "States": {"T": {"Type": "Task", "Resource": FA + "f", "Next": "Z"}, "Z": Z}}
    else:
        d = {"StartAt": "T", "States": {"T": {"Type": "Task", "Resource": FA + "f", "Next": "Y"}, "Y": {"Type": "Pass", "Next": "Z"}, "Z": Z}}
    reply = ["err", "E1", "boom"] if mode == "restart-then-fail" else ["ok", {"r": 1}]
    sc = {"name": "c17r", "machines": {m: {"definition": d, "type": typ}}, "record_sites": False, "workers": {"f": {"*": [["none"] if mode == "restart-then-timeout" else ["delay", reply]]}},
          "starts": [{"machine": m, "name": e, "input": {"k": 1}}], "horizon": 2000.0, "restart-then-timeout": mode == "restart-then-timeout"}
    w = World(sc)
    out = []
    sarn, want_e = sm_arn(m), exec_arn(m, e)
    if mode.startswith("restart") or mode == "restart-then-timeout":
        guard = 0
        while not w.workers["f"].requests and guard < 200:
            en = w.enabled()
            if not en:
                break
            w.step(en[0]); guard += 1
        if not w.workers["f"].requests:
            out.append(("recovery-not-reached", m, e, mode))
        w.step(("crash", 1))
        w.step(("restart", 1))
    w.run(max_steps=3000)
    api = ApiClient(w)
    term = 0
    for nt in w.notes:
        det = nt["body"]["detail"]
        if det.get("status") != "RUNNING":
            term += 1
        if det.get("executionArn") != want_e or det.get("stateMachineArn") != sarn or det.get("name") != e or nt["key"] != sarn + "." + str(det.get("status")) \
                or nt["body"].get("resources") != [want_e]:
            out.append(("notification-" + mode, m, e, [det.get("executionArn"), det.get("stateMachineArn"), det.get("name"), nt["key"]]))
    if term != 1:
        out.append(("terminal-count-" + mode, m, e, term))
    if typ == "STANDARD":
        rec = w.executions().get(want_e)
        if not rec or rec.get("stateMachineArn") != sarn or rec.get("name") != e or rec.get("executionArn") != want_e:
            out.append(("record-" + mode, m, e, rec and [rec.get("stateMachineArn"), rec.get("name"), rec.get("executionArn")]))
        st2, js2, _ = api.call("DescribeStateMachineForExecution", {"executionArn": want_e})
        if st2 != 200 or js2.get("stateMachineArn") != sarn:
            out.append(("sm-for-execution-" + mode, m, e, st2))
        st3, js3, _ = api.call("ListExecutions", {"stateMachineArn": sarn})
        listed = [x.get("executionArn") for x in (js3 or {}).get("executions", [])] if st3 == 200 else None
        if listed != [want_e]:
            out.append(("listed-under-machine-" + mode, m, e, listed))
        st4, js4, _ = api.call("DescribeExecution", {"executionArn": want_e})
        if st4 != 200 or js4.get("stateMachineArn") != sarn or js4.get("name") != e:
            out.append(("describe-" + mode, m, e, st4))
    w.close()
    return out

def _unvalidated_case(args):
    """Names that never pass through the API validator: a child launch's Parameters.Name and a raw start event's Execution.Name."""
    name, typ = args[0], args[1]
    region = args[2] if len(args) > 2 else "local"
    from harness.world import World, sm_arn
    child = {"StartAt": "C", "States": {"C": {"Type": "Pass", "End": True}}}
    parent = {"StartAt": "L", "States": {"L": {"Type": "Task", "Resource": "arn:aws:states:%s::states:startExecution" % region,
                                               "Parameters": {"StateMachineArn": sm_arn("kid"), "Input": {}, "Name": name}, "End": True}}}
    sc = {"name": "c17u", "machines": {"par": {"definition": parent}, "kid": {"definition": child, "type": typ}}, "record_sites": False,
          "starts": [{"machine": "par", "name": "p1", "input": {}}],
          "script": [{"op": "raw", "body": json.dumps({"data": {}, "context": {"StateMachine": {"Id": sm_arn("kid")}, "Execution": {"Name": name}}})}]}
    w = World(sc)
    w.run(max_steps=500)
    out = []
    kid = sm_arn("kid")
    seen = 0
    for nt in w.notes:
        det = nt["body"]["detail"]
        if ":execution:kid:" in (det.get("executionArn") or "") or det.get("stateMachineArn") == kid:
            seen += 1
            want_e = "arn:aws:states:local:0123456789:execution:kid:" + name
            if det.get("stateMachineArn") != kid or det.get("executionArn") != want_e or det.get("name") != name or nt["key"] != kid + "." + det.get("status"):
                out.append(("unvalidated-name", name, typ, [det.get("executionArn"), det.get("stateMachineArn"), det.get("name"), nt["key"]]))
    if seen == 0:
        out.append(("unvalidated-name-not-run", name, typ, None))
    w.close()
    return out

def run(tier, seed):
    cr = common.CheckResult(PROP)
    na = part_a(cr)
    nb, acc = part_b(cr, tier)
    A, ra = engine()
    accepted = [x for x in names(2 if tier == "quick" else 2) if ra.valid_name(x)]
    pick = accepted if tier == "thorough" else [x for x in accepted if len(x) <= 1] + ["a.", ".-", "-_", "a0", "0.", "__", "n" * 80]
    jobs = []
    for typ in ("STANDARD", "EXPRESS"):
        for i in range(0, len(pick), 4):
            jobs.append((pick[i:i + 4], ["e", "a.b-c_d", pick[i]], typ))
    ujobs = [(nm, typ) for nm in ("c1", "a.b", "a:b", "a/b", "a b", "x:y:z") for typ in ("STANDARD", "EXPRESS")]
    ujobs += [("c1", typ, reg) for typ in ("STANDARD", "EXPRESS") for reg in ("", "eu-west-1")]
    rnames = ["a", "a.b-c_d", "0.", "-_", "n" * 80] + (["__", "a0", ".-"] if tier == "thorough" else [])
    rjobs = [(mn, en, typ, mode) for mn in rnames for en in (["e", "my-run.2030_03-17", mn] if tier == "thorough" else ["my-run.2030_03-17", mn][: 2 if len(mn) < 80 else 1])
             for typ in ("STANDARD", "EXPRESS") for mode in ("restart", "restart-then-fail", "restart-in-branch", "restart-then-timeout", "plain")]
    ctx = multiprocessing.get_context("fork")
    with ctx.Pool(common.JOBS) as pool:
        outs = pool.map(_engine_case, jobs, chunksize=1)
        uouts = pool.map(_unvalidated_case, ujobs, chunksize=1)
        routs = pool.map(_recovery_case, rjobs, chunksize=2)
    nc = 0
    for (mn, en, typ), res in zip(jobs, outs):
        nc += len(mn) * len(en)
        for kind, m, e, got in res:
            sig = "derive|%s|%s" % (kind, typ)
            cr.add(sig, "machine %r execution %r: %s -> %r" % (m, e, kind, got), {"kind": "derive", "property": PROP, "signature": sig, "machine": m, "execution": e, "type": typ}, size=len(m) + len(e))
    for uj, res in zip(ujobs, uouts):
        nm, typ = uj[0], uj[1]
        nc += 1
        for kind, name, t, got in res:
            sep = ":" if ":" in name else "/" if "/" in name else "other"
            sig = "derive|%s|%s|sep=%s" % (kind, typ, sep)
            cr.add(sig, "unvalidated execution name %r (%s child / raw event): identifiers derived as %r" % (name, typ, got),
                   {"kind": "unvalidated", "property": PROP, "signature": sig, "name": name, "type": typ}, size=len(name))
    for rj, res in zip(rjobs, routs):
        nc += 1
        for kind, m, e, got in res:
            sig = "derive|%s|%s" % (kind, rj[2])
            cr.add(sig, "machine %r execution %r (%s): %s -> %r" % (m, e, rj[3], kind, got), {"kind": "recovery", "property": PROP, "signature": sig, "case": list(rj)}, size=len(m) + len(e))
    cr.coverage = {
        "evaluations": na + nb + nc, "distinct_nontrivial": acc + nc,
        "rule": "(a) create_arn/parse_arn over all %d part combinations; (b) every string of length <= %d over %d characters (letters, digits, ARN separators, every character valid_name rejects) plus "
                "lengths 79/80/81 and non-strings through valid_name: every accepted name must give state-machine and execution ARNs that split back (incl. the engine's split-at-last-colon derivation); "
                "(c) machines/executions named from the accepted set created and started through the real API, STANDARD and EXPRESS, every identifier in the API answers, records, notifications "
                "(detail, subject, resources) compared; (d) names that bypass the validator (child Parameters.Name, raw start event); (e) the derivations from the execution ARN: record rebuilt after a crash + restart "
                "(blocked top-level Task, Task in a branch, Task that then fails), details of record-less (EXPRESS) executions, time-out of a silent Task after the restart (the heart-beat backstop itself is not reached by any scenario); record, notifications, Describe*, ListExecutions by machine" % (na, 2 if tier == "quick" else 3, len(ALPHA)),
        "accepted_names": acc, "engine_executions": nc,
        "samples": [{"name": "a.-"}, {"unvalidated_child_name": "a:b"}], "exhaustive": True,
    }
    cr.assumptions = ["ARN grammar arn:partition:service:region:account:[type(:|/)]resource"] + common.ASSUME_SIM[:1]
    return cr

def replay(rp):
    cr = common.CheckResult(PROP)
    if rp["kind"] in ("arn",):
        part_a(cr)
    elif rp["kind"] == "name":
        part_b(cr, "quick")
    elif rp["kind"] == "derive":
        res = _engine_case(([rp["machine"]], [rp["execution"]], rp["type"]))
        print(("REPRODUCED property=C17 %r" % res) if res else "not reproduced")
        return 1 if res else 0
    elif rp["kind"] == "recovery":
        res = _recovery_case(tuple(rp["case"]))
        print(("REPRODUCED property=C17 %r" % res) if res else "not reproduced")
        return 1 if res else 0
    else:
        res = _unvalidated_case((rp["name"], rp["type"]))
        print(("REPRODUCED property=C17 %r" % res) if res else "not reproduced")
        return 1 if res else 0
    bad = rp["signature"] in cr.findings
    print("REPRODUCED property=C17 " + rp["signature"] if bad else "not reproduced")
    return 1 if bad else 0
