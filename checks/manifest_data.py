"""Source of MANIFEST.json (regenerate with tools/mkmanifest.py)."""
SIM = ("Trusted base: the simulated pika broker and the time model of DESIGN.md 3.1/3.4 (cannot be cross-checked against a real "
       "RabbitMQ offline); virtual clock/uuid seams; CPython. Bounds: the scenario corpus named in the evidence file.")
ENGINES = [
    {"name": "explorer", "path": "harness/explorer.py", "kind_free_text": "stateless DFS explicit-state model checker over the real engine on a simulated broker (replay + fingerprint dedup + deviation bound)",
     "serves_properties": ["C03"]},
]
CHECKS = {
    "C03": {
        "text": "Implementation-level explicit-state model checking: for every scenario of the handler-coverage and poison corpora all interleavings of "
                "deliveries, worker replies and timers are explored (closed, fingerprint-deduplicated); the carry invariant is evaluated after every "
                "basic_ack of every handler and the drain invariant at every quiescent state. Exhaustive within the corpus, which is the right level for an "
                "ordering property that a single mis-ordered ack violates on one specific schedule.",
        "note": SIM,
        "technique": "explicit-state model checking of the implementation (exhaustive interleaving exploration with state fingerprints)",
    },
}
NA = {}
NOTES = "All checks run the real code of /repo's working tree (imported by path) over /verif/sim; see DESIGN.md."
