"""Source of MANIFEST.json (regenerate with tools/mkmanifest.py)."""
SIM = ("Trusted base: the simulated pika broker and the time model of DESIGN.md 3.1/3.4 (cannot be cross-checked against a real "
       "RabbitMQ offline); virtual clock/uuid seams; CPython. Bounds: the scenario corpus named in the evidence file.")
ENGINES = [
    {"name": "explorer", "path": "harness/explorer.py", "kind_free_text": "stateless DFS explicit-state model checker over the real engine on a simulated broker (replay + fingerprint dedup + deviation bound)",
     "serves_properties": ["C02", "C03", "C04", "C05", "C10", "C15", "C20", "C06", "C08", "C09", "C11"]},
    {"name": "enumerator", "path": "checks/common.py", "kind_free_text": "exhaustive small-scope enumeration of inputs/programs from a stated finite alphabet, each evaluated on the real code and on a reference model under /verif/ref",
     "serves_properties": ["C01", "C07", "C08", "C12", "C13", "C14", "C16", "C17"]},
]
CHECKS = {
    "C03": {
        "text": "Implementation-level explicit-state model checking: for every scenario of the handler-coverage and poison corpora all interleavings of "
                "deliveries, worker replies and timers are explored (closed, fingerprint-deduplicated); the carry invariant is evaluated after every "
                "basic_ack of every handler and the drain invariant at every quiescent state; the corpus includes a filter-failure matrix (every filter of every "
                "state type failing in each way it can, unhandled / caught / retried) and, for the drain clause after a recovery, every crash point between two "
                "atomic steps of C04's single-level scenarios followed by all interleavings after the restart. Exhaustive within the corpus, which is the right level for an "
                "ordering property that a single mis-ordered ack violates on one specific schedule.",
        "note": SIM,
        "technique": "explicit-state model checking of the implementation (exhaustive interleaving exploration with state fingerprints)",
    },
}
ENUM = ("Trusted base: the hand-written reference model under /verif/ref (kept deliberately boring and self-tested), CPython. "
        "Bounds: the finite alphabet stated in the evidence file's rule; values outside it are not covered.")
CHECKS["C12"] = {
    "engine": "enumerator",
    "text": "Small-scope exhaustive enumeration (bounded model checking of a pure function against a reference model): every document of a finite alphabet x every "
            "reference path of length <= 3 in dot/bracket/index notation x results that are fresh values, the input itself or sub-trees of it, through the real "
            "apply_jsonpath / apply_path / apply_resultpath; read, put-get, frame, finiteness, '$', null and '$$' laws compared with ref/jsonpath.py. Known defects are "
            "matched only through exact defect models.",
    "note": ENUM,
    "technique": "exhaustive small-scope enumeration of inputs against a reference model (bounded model checking, explicit enumeration)",
}
CHECKS["C08"] = {
    "engine": "enumerator+explorer",
    "text": "RFC 3339 clause: every UTC offset -23:59..+23:59 at minute granularity x fraction forms x Z forms, enumerated exhaustively through the real parser and compared "
            "with an exact rational reference. (Firing-instant clauses: explored on the virtual clock, see evidence.)",
    "note": ENUM + " " + SIM,
    "technique": "exhaustive enumeration of the timestamp grammar against an exact reference; explicit-state exploration of timer/reply orders on a virtual clock",
}
CHECKS["C14"] = {
    "engine": "enumerator",
    "text": "Exhaustive enumeration through one-Choice machines run by the real engine on the simulated broker: all 39 comparison operators x variable values of every JSON type "
            "(incl. missing) x constants of every type and *Path operands, And/Or/Not trees to the tier's depth x all truth assignments, all orderings of overlapping rules, "
            "Default present/absent, InputPath/OutputPath; oracle ref/choice.py. Cases the statement leaves open are not judged.",
    "note": ENUM + " " + SIM,
    "technique": "exhaustive small-scope enumeration of programs x inputs against a reference model (bounded model checking, explicit enumeration)",
}
CHECKS["C01"] = {
    "engine": "enumerator",
    "text": "All state machines generated from a grammar over ~40 state templates chained to the tier's length (2 quick / 3 thorough, with nested Parallel/Map templates) x a JSON "
            "input alphabet x task outcome assignments, each run through the real engine on the canonical schedule and through an independent big-step interpreter (ref/asl.py); "
            "terminal status, output / error name compared on the notification and the record. Exhaustive within the grammar bounds; known defects matched only via exact defect models.",
    "note": ENUM + " " + SIM,
    "technique": "exhaustive small-scope enumeration of programs x inputs x task outcomes against a reference interpreter (bounded model checking, explicit enumeration)",
}

_MC = "explicit-state model checking of the implementation (exhaustive interleaving exploration of the real engine over a simulated broker, state fingerprints, property monitors)"
def _mc(text):
    return {"engine": "explorer", "text": text, "note": SIM, "technique": _MC}
CHECKS["C02"] = _mc("All interleavings of deliveries, worker replies and timers (closed exploration, fingerprint-deduplicated) of the sequential, fan-out-succeeds and single-unhandled-failure "
    "scenario families, incl. concurrent executions, retries, time-outs, EXPRESS, a raw start event, every form of child launch (async, .sync, .sync:2, startSyncExecution, a child ending by its own time-out) and every handler scenario beside a blocked bystander execution; M-life (one RUNNING, exactly one terminal notification, "
    "frozen terminal record, record shape) after every step, liveness at every quiescent state, and the terminal result compared with the reference interpreter on every schedule.")
CHECKS["C05"] = _mc("All interleavings (closed) of Parallel 2x1/2x2/3x1/mixed, Map over arrays of every length 0..N with every MaxConcurrency 0..length+1, Map-in-Parallel and Parallel-in-Map, branches that recover through an in-branch Catch, InputPath/ResultPath on the fan-out state (incl. an empty item array); "
    "output equals the reference on every schedule, the state after the join is entered only after every branch event, each item started and requested exactly once, requests in flight <= MaxConcurrency after every broker operation.")
CHECKS["C06"] = _mc("All interleavings (closed) of Parallel/Map shapes x failure assignments (one, both, Fail state, failing item) x {no handler, Catch, Retry, Retry+Catch} x sibling activity "
    "(task outstanding incl. the long invoke form, in a Wait / zero Wait, queued, recovering after an in-branch Catch, waiting out a Retry interval) x nesting, and a retried fan-out on the timed schedule class; after a fan-out attempt has failed no branch of it publishes an event or issues an RPC request, exactly one terminal notification, "
    "nothing appended to the history after the end, everything drained, result equals the reference.")
CHECKS["C09"] = _mc("M-hist evaluated on the complete history after every step of every interleaving of the handler-coverage, sequential, fan-out and fan-out-failure families: numbering, "
    "previousEventId, timestamps, ExecutionStarted, exactly one terminal event that agrees with the record and is last, entered/exited pairing and order along the transitions taken, EXPRESS stores nothing; "
    "GetExecutionHistory read through the real REST front end (forwards and reverseOrder) at every point of an execution must return the stored list / exactly its reverse and leave it untouched; logging configurations, falsy inputs, reused execution names.")
CHECKS["C11"] = _mc("M-views evaluated after every step of every interleaving of the same families: record vs last notification vs history terminal event, each status published once to '<stateMachineArn>.<status>' "
    "in the CloudWatch shape with integer-millisecond dates while the stored record keeps epoch seconds; also over the Redis-backed stores on one instance and on two instances sharing them (every instance must answer alike), "
    "STANDARD and EXPRESS, falsy inputs, logging configurations and an execution name used a second time.")
CHECKS["C07"] = {
    "engine": "enumerator",
    "text": "All retrier lists / catcher lists / task outcome sequences within the tier's bounds (see evidence rule), each run through the real engine on the virtual clock (canonical schedule) "
            "and through ref/asl.py; compared: the instants of every RPC request of the retried task and of the successor / catch-target task (exact), terminal status, output and instant. "
            "Known defects matched only through exact defect models (e.g. the shared-RetryCount model).",
    "note": ENUM + " " + SIM,
    "technique": "exhaustive small-scope enumeration of policies x fault sequences against a reference interpreter, on a virtual clock (bounded model checking, explicit enumeration)",
}
CHECKS["C04"] = {
    "engine": "explorer",
    "text": "Fault enumeration + explicit-state exploration: for every scenario of the crash corpus, every crash point between two atomic steps of the canonical run (plain, and with the head message of "
            "each consumed queue already in flight to the dead process) and every crash point after an individual broker operation inside a step is taken; the process is restarted with the same "
            "instance id and all interleavings of redelivered events, pending replies and timers are then explored (closed). Oracles: no execution lost; for between-step crashes the same terminal "
            "status/output as crash-free; no correlation id requested twice. Scenarios incl. sync children, finished branches held for the join, downtime, stale replies and fan-outs nested in fan-outs (quick: deviation bound 2 after the restart for the nested ones). Double crashes in the thorough tier.",
    "note": SIM + " A crash is modelled as the broker seeing the connection drop (unacked deliveries requeued in place, flagged redelivered) with all volatile engine state lost; the JSON store file survives.",
    "technique": "exhaustive crash-point enumeration + explicit-state model checking of the implementation after restart",
}
CHECKS["C10"] = {
    "engine": "explorer",
    "text": "Explicit-state breadth-first search over store states: from the empty store, every call of a ~190-call alphabet (the nine actions x valid / each kind of invalid argument, requests without parameters, bodies that are truncated / empty / not UTF-8 for every action, the immediate refusals of StartSyncExecution) is issued in "
            "every reachable state to the real Quart and Flask front ends backed by the real engine (snapshot/restore of the stores; StartExecution is run to quiescence); status, __type and body compared with a "
            "two-map reference, stores compared before/after each error answer and with the reference after each success. Quick: first 160 distinct store states per front end in breadth-first order; thorough: the first 1500 (the search reaches its fixed point within that for the validating configuration; with unnamed executions in the alphabet the plain searches are reported as capped). Plus 12 pairs of overlapping "
            "requests on the asyncio front end, the two handlers stepped one ready event-loop callback at a time through every interleaving within a deviation bound (1 quick / 2 thorough) of the loop's own order: answers and stores must "
            "equal one of the two sequential orders. The alphabet includes StartExecution without a name (generated names are anonymised in the canonical state, at most two per state in the quick tier, one in the search to the fixed point) and arrays / objects where string arguments are expected. "
            "A second, smaller search runs the asyncio front end configured with validate_asl: definitions the bundled validator refuses or that repeat a member name are refused there (store unchanged) and stored as given otherwise.",
    "note": "Trusted base: the reference map in checks/c10.py, Quart/Flask test clients in place of HTTP, simulated broker for StartExecution. " + SIM,
    "technique": "explicit-state model checking (BFS over reachable store states with a reference-model oracle)",
}
CHECKS["C16"] = {
    "engine": "enumerator",
    "text": "Exhaustive window enumeration: for each limit L every size L-2..L+2 (plus tiny and 2L) at every enforcement point (API input for StartExecution and StartSyncExecution, callback output, "
            "Pass / Map / Parallel output with Next and End, task reply with Next, with End and thrown away by ResultPath null (short and invoke form), callback message published straight to the reply queue (kept and thrown away), "
            "definition in Create and Update, names in Create and StartExecution) through the real API and engine, and a looping machine and an endlessly retried Task against the real 25000-event history limit; accepted iff size <= L "
            "with the documented error otherwise.",
    "note": ENUM + " " + SIM + " Sizes are measured on bare JSON strings so that every serializer agrees on the text length.",
    "technique": "exhaustive boundary-window enumeration against the documented quota table (bounded model checking, explicit enumeration)",
}
CHECKS["C17"] = {
    "engine": "enumerator",
    "text": "Exhaustive enumeration: create_arn/parse_arn over all part combinations of small pools; every string up to the tier's length over letters, digits, ARN separators and every rejected character through "
            "valid_name, each accepted name checked for round-tripping state-machine / execution ARNs (incl. the engine's split-at-last-colon derivation); machines and executions named from the accepted set run "
            "through the real API and engine (STANDARD and EXPRESS) with every derived identifier compared; names that bypass the validator (child launch, raw event, other Resource regions); the derivations from the execution ARN after a crash + "
            "restart (record rebuilt from a redelivered event: top-level Task, Task in a branch, Task that then fails or times out) and for record-less executions: record, notifications, Describe*, ListExecutions by machine.",
    "note": ENUM + " " + SIM,
    "technique": "exhaustive small-scope enumeration of names/ARN parts with round-trip and differential oracles",
}
CHECKS["C13"] = {
    "engine": "enumerator",
    "text": "Grammar-based exhaustive enumeration: every intrinsic function x 0..arity+1 arguments x argument kinds (numbers, quoted strings containing , ) ( escaped apostrophes { } ^ ] - , null/true/false, path hit/miss, "
            "context paths, nested calls to depth 2) plus malformed call texts and payload templates of depth <= 2 mixing literal and '.$' members, each evaluated by the real evaluate_payload_template and by an "
            "independent tokenizer + recursive-descent reference; value equality, failure class (only IntrinsicFailure / path failure may escape), immutability of template/input/context; the whole corpus "
            "re-evaluated under three PYTHONHASHSEED values.",
    "note": ENUM + " Results the definitions leave open (rendering of non-string non-integer Format arguments, surplus Format arguments, empty StringSplit fields, negative ArrayRange increments, random numbers) are not judged.",
    "technique": "exhaustive grammar-based enumeration of expressions against a reference evaluator (bounded model checking, explicit enumeration)",
}
CHECKS["C15"] = _mc("All interleavings (closed) of parent/child scenarios: async launch, .sync / .sync:2 / aws-sdk startSyncExecution with a child that succeeds, fails (caught and uncaught), EXPRESS and STANDARD children, "
    "invalid combinations, parent time-out while the child is blocked in a Wait / Task, parent inside Parallel (incl. a failing sibling) and Map; task-token callback streams through the real SendTaskSuccess / "
    "SendTaskFailure handlers (valid, duplicate, success-then-failure, forged, truncated, not base64, never, late, ordinary RPC reply before the callback, RPC error reply). M-child checks completion only once the child "
    "is terminal, documented field names and Output typing, States.TaskFailed with the child's error, token results / API answers, cancellation of what the child is blocked on; M-life / M-carry / M-drain ride along.")
CHECKS["C18"] = {
    "engine": "enumerator+explorer",
    "text": "Exhaustive mutation enumeration: all single mutations (drop / rename field, retarget Next / Default / StartAt, retag Type, duplicate a state name across and beside nesting levels, every wrong JSON type and the empty value of its own type for every member) "
            "of 12 well-formed seed machines plus a family of small JSON values go through the real StateLint.validate (must return a problem list, never raise); every mutant with no problems is run by the real engine "
            "for 3 inputs x {task ok, task error} and must become terminal without an 'Illegal State Machine' failure or an escaping exception; every mutant the validator refuses is run as well (nothing may escape a callback, the engine must go quiet - "
            "a machine without a cycle may not still be running after 3000 steps - and the execution ends at most once); mutants, JSON values as definitions and malformed event bodies are placed next "
            "to two healthy executions and explored with deviation bound 2 (healthy results equal the reference, poison events acknowledged, nothing escapes).",
    "note": ENUM + " " + SIM,
    "technique": "exhaustive mutation enumeration + deviation-bounded explicit-state exploration of the implementation",
}
CHECKS["C20"] = {
    "engine": "explorer",
    "text": "Explicit-state breadth-first search per store kind (JSONStore, SimpleStore, RedisDictStore, RedisListStore over the simulated server): all sequences of set / nested update or append through the returned "
            "view / get / get_cached_view / delete / in / iterate / len / set_ttl / reopen / corrupt-file reopen / 'deliver one queued invalidation to client c' over 3 keys x 3 values, two clients with cache capacity 2 "
            "for the Redis kinds, to a fixed point of the canonical state; every placement of every invalidation (single-key and coalesced) between operations is a transition; for the file / in-memory stores the operation path is replayed, with updates in place of what the store handed out and write-backs of the same / an equal value; for the Redis kinds also every operation sequence up to length 4 (5 thorough) from clients that have not yet served a cached read (tracking is enabled lazily), and other stores' keys share the keyspace so that SCAN pages can come back empty. Oracle: a plain dict; a cached read must equal the backend once no "
            "invalidation for that client is queued; cache size <= capacity; TTL set; data survives a real stop()/re-create; an unreadable file starts empty.",
    "note": "Trusted base: the simulated redis server / pottery containers (cannot be cross-checked against the real libraries offline) and operation-granularity placement of the invalidation handler (the property's quantifier).",
    "technique": "explicit-state model checking (BFS over operation sequences with state de-duplication, reference-model oracle)",
}
CHECKS["C19"] = {
    "engine": "explorer+enumerator",
    "text": "All interleavings (closed) of corpus executions started through the real StartExecution on 1, 2 and 3 engine instances sharing one simulated broker (and the simulated Redis store), classic and quorum queue "
            "names: every assignment of start events to competing instances is a branch; M-route checks on every delivery and every publish that start events travel on the shared queue, every later event "
            "(transition, branch, retry, synchronous child launch, callback) reaches the instance that consumed the start through its own exclusive queue, RPC requests carry that instance's reply queue, the task "
            "event's id as correlation id and the mandatory flag, replies return to the requester; a second instance with the same id is refused. Exhaustive enumeration of the documented address strings (declared "
            "queues / exchanges / bindings / subscriptions must equal what the string describes), of all message field combinations and expiration values (None, numeric, numeric string, negative, non-numeric, "
            "infinite, NaN) and of acknowledgement order through the real Producer / Consumer / Message of both transports; the canonical run of 12 engine scenarios on the asyncio and on the blocking transport "
            "must produce identical broker traffic.",
    "note": SIM + " The blocking transport's engine thread is parked inside the simulated connection (one callback = one atomic step on both transports).",
    "technique": "explicit-state exploration of the implementation on a multi-instance broker + exhaustive enumeration of addresses / message fields with a differential oracle between the two transports",
}
NA = {}
NOTES = "All checks run the real code of /repo's working tree (imported by path) over /verif/sim; see DESIGN.md."
