"""vf replay <file>: re-run one recorded counter-example without the explorer; exit 1 if it still fails."""
import json, importlib

def main(path):
    rp = json.load(open(path))
    kind = rp.get("kind", "engine")
    if kind == "engine":
        return engine_replay(rp)
    mod = importlib.import_module("checks." + rp["property"].lower())
    return mod.replay(rp)

def engine_replay(rp):
    if True:
        from harness.explorer import run_labels
        from checks import monsets, common
        factory = monsets.get(rp["monitors"])
        sc = rp["scenario"]
        w, mons = run_labels(sc, lambda: factory(sc), rp["labels"])
        sigs = set()
        for m in mons:
            for v in m.violations:
                sigs.add(common.signature(rp["property"], sc.get("family"), v.to_json()))
        w.close()
        if rp["signature"] in sigs:
            print("REPRODUCED property=%s signature=%s" % (rp["property"], rp["signature"]))
            print("  " + rp["violation"]["detail"])
            return 1
        print("not reproduced (observed signatures: %s)" % sorted(sigs))
        return 0
    mod = importlib.import_module("checks." + rp["property"].lower())
    return mod.replay(rp)
