"""C18 - validator-accepted machines run; uninterpretable ones hurt only themselves (mutation enumeration + engine runs)."""
import json, copy, itertools, multiprocessing
from . import common
from harness.corpus import chain, Task, Pass, Wait, Fail, Succeed, Choice, Parallel, Map, fn_arn

PROP = "C18"

def seeds():
    Z = ("Z", Pass())
    RET = [{"ErrorEquals": ["E1"], "IntervalSeconds": 1, "MaxAttempts": 1}]
    CAT = [{"ErrorEquals": ["States.ALL"], "Next": "Z", "ResultPath": "$.err"}]
    out = {
        "pass-chain": chain(("A", Pass(Result=1, ResultPath="$.a")), ("B", Pass(Parameters={"x.$": "$.a"})), Z),
        "task-retry-catch": chain(("T", Task("f", Retry=RET, Catch=CAT, TimeoutSeconds=5)), Z),
        "choice": chain(("C", Choice([{"Variable": "$.x", "NumericEquals": 1, "Next": "Y"}, {"And": [{"Variable": "$.x", "IsPresent": True}, {"Variable": "$.x", "NumericGreaterThan": 5}], "Next": "Z"}], default="Z")),
                        ("Y", Pass(End=True)), Z),
        "wait-seconds": chain(("W", Wait(1)), Z),
        "wait-timestamp": chain(("W", Wait(Timestamp="2030-03-17T17:46:41Z")), Z),
        "wait-paths": chain(("W", Wait(SecondsPath="$.x")), ("W2", Wait(TimestampPath="$.t")), Z),
        "succeed-fail": chain(("C", Choice([{"Variable": "$.x", "NumericEquals": 1, "Next": "S"}], default="F")), ("S", Succeed()), ("F", Fail())),
        "parallel": chain(("P", Parallel([chain(("A1", Task("f"))), chain(("B1", Pass()), ("B2", Wait(1)))], ResultPath="$.p", Catch=CAT)), Z),
        "map": chain(("M", Map(chain(("I", Task("f"))), ItemsPath="$.items", MaxConcurrency=1, ItemSelector={"v.$": "$$.Map.Item.Value"}, Retry=RET)), Z),
        "map-legacy": chain(("M", Map(chain(("I", Pass())), legacy=True, ItemsPath="$.items", Parameters={"v.$": "$$.Map.Item.Value"})), Z),
        "nested": chain(("P", Parallel([chain(("M", Map(chain(("I", Pass())), ItemsPath="$.items"))), chain(("B1", Pass()))])), Z),
        # a machine with a cycle: every state, the first included, has an incoming transition (the back edge is never taken by the inputs used)
        "cycle": chain(("A", Pass(Result=1, ResultPath="$.n")), ("C", Choice([{"Variable": "$.n", "NumericEquals": 99, "Next": "A"}], default="Z")), Z),
        "cycle-in-branch": chain(("P", Parallel([chain(("A1", Pass(Result=1, ResultPath="$.n")), ("C1", Choice([{"Variable": "$.n", "NumericEquals": 99, "Next": "A1"}], default="Z1")), ("Z1", Pass()))])), Z),
        "task-selector": chain(("T", Task("f", Parameters={"q.$": "$.x"}, ResultSelector={"r.$": "$"}, ResultPath="$.t", OutputPath="$.t")), Z),
    }
    return out

WRONG = [5, "s", None, [], {}, True, [1]]

def walk(d, path=()):
    """Yield (path, parent container, key) for every member of every object and every array element."""
    if isinstance(d, dict):
        for k in list(d):
            yield path + (k,), d, k
            yield from walk(d[k], path + (k,))
    elif isinstance(d, list):
        for i in range(len(d)):
            yield path + (i,), d, i
            yield from walk(d[i], path + (i,))

def get(d, path):
    for k in path:
        d = d[k]
    return d

def all_state_names(d, acc=None):
    acc = [] if acc is None else acc
    if isinstance(d, dict):
        if isinstance(d.get("States"), dict):
            acc.extend(d["States"].keys())
        for v in d.values():
            all_state_names(v, acc)
    elif isinstance(d, list):
        for v in d:
            all_state_names(v, acc)
    return acc

def mutations(seed):
    """(description, mutated definition)"""
    out = []
    names = all_state_names(seed)
    for path, parent, key in list(walk(seed)):
        if isinstance(parent, dict):
            m = copy.deepcopy(seed); p = get(m, path[:-1]); del p[key]
            out.append(("drop %s" % "/".join(map(str, path)), m))
            m = copy.deepcopy(seed); p = get(m, path[:-1]); p[str(key) + "X"] = p.pop(key)
            out.append(("rename %s" % "/".join(map(str, path)), m))
            if key in ("Next", "Default", "StartAt") and isinstance(parent[key], str):
                for tgt in ["Missing"] + [n for n in names if n != parent[key]][:3]:
                    m = copy.deepcopy(seed); get(m, path[:-1])[key] = tgt
                    out.append(("retarget %s -> %s" % ("/".join(map(str, path)), tgt), m))
            if key == "Type":
                for t in ("Bogus", "Pass", "Task", "Choice", "Wait", "Map", "Parallel", "Succeed", "Fail"):
                    if t != parent[key]:
                        m = copy.deepcopy(seed); get(m, path[:-1])[key] = t
                        out.append(("retag %s -> %s" % ("/".join(map(str, path)), t), m))
            if len(path) >= 2 and path[-2] == "States" and len(path) > 2:
                # a nested state renamed to the name of a state of another machine of the same definition: an outer one, or one
                # in a sibling Branch / another Map's processor (non-unique names across and beside nesting levels)
                for other in dict.fromkeys(names):
                    if other != key and other not in parent:
                        m = copy.deepcopy(seed); p = get(m, path[:-1]); p[other] = p.pop(key)
                        if p.get(other, {}).get("Next") == other:
                            continue
                        # keep the machine well-formed in every other respect: references inside the same States object follow the rename
                        holder = get(m, path[:-2])
                        if holder.get("StartAt") == key:
                            holder["StartAt"] = other
                        for st in p.values():
                            if isinstance(st, dict) and st.get("Next") == key:
                                st["Next"] = other
                        txt = json.dumps(m)
                        out.append(("duplicate-name %s -> %s" % ("/".join(map(str, path)), other), json.loads(txt)))
        cur = parent[key]
        # the empty / zero / negative value of the member's own type ("" for a name, [] for a list, 0 and -1 for a number)
        for ev in {str: [""], list: [[]], dict: [{}], int: [0, -1], float: [0.0]}.get(type(cur), []):
            if ev != cur:
                m = copy.deepcopy(seed); get(m, path[:-1])[key] = copy.deepcopy(ev)
                out.append(("empty %s := %s" % ("/".join(map(str, path)), json.dumps(ev)), m))
        for wv in WRONG:
            if type(cur) == type(wv) and not (isinstance(cur, bool) != isinstance(wv, bool)):
                continue
            m = copy.deepcopy(seed); get(m, path[:-1])[key] = copy.deepcopy(wv)
            out.append(("retype %s := %s" % ("/".join(map(str, path)), json.dumps(wv)), m))
    return out

def json_values():
    leaves = [None, True, 0, 1.5, "", "s", [], {}]
    out = list(leaves)
    for a in leaves:
        out.append([a]); out.append({"States": a}); out.append({"StartAt": a}); out.append({"StartAt": "A", "States": a}); out.append({"StartAt": "A", "States": {"A": a}})
        out.append({"StartAt": "A", "States": {"A": {"Type": a}}}); out.append({"StartAt": "A", "States": {"A": {"Type": "Pass", "End": a}}})
        out.append({"StartAt": "A", "States": {"A": {"Type": "Wait", "Timestamp": a, "End": True}}}); out.append({"StartAt": "A", "States": {"A": {"Type": "Wait", "Seconds": a, "End": True}}})
        out.append({"StartAt": "A", "States": {"A": {"Type": "Choice", "Choices": a}}}); out.append({"StartAt": "A", "States": {"A": {"Type": "Choice", "Choices": [a]}}})
        out.append({"StartAt": "A", "States": {"A": {"Type": "Task", "Resource": a, "End": True}}}); out.append({"StartAt": "A", "States": {"A": {"Type": "Task", "Resource": "r", "Retry": a, "End": True}}})
        out.append({"StartAt": "A", "States": {"A": {"Type": "Parallel", "Branches": a, "End": True}}}); out.append({"StartAt": "A", "States": {"A": {"Type": "Map", "ItemProcessor": a, "End": True}}})
        out.append({"StartAt": "A", "States": {"A": {"Type": "Pass", "Parameters": a, "End": True}}}); out.append({"StartAt": "A", "States": {"A": {"Type": "Pass", "Parameters": {"x.$": a}, "End": True}}})
    return out

_lint = None
def lint():
    global _lint
    if _lint is None:
        from harness import world
        world.install()
        from statelint.statelint import StateLint
        _lint = StateLint()
    return _lint

def validate(d):
    try:
        r = lint().validate(copy.deepcopy(d))
        if not isinstance(r, list):
            return ("notlist", repr(type(r)))
        return ("problems", len(r))
    except Exception as e:
        return ("raise", type(e).__name__)

ILLEGAL = ("Illegal State Machine",)

def may_loop(d):
    """Does any machine of the definition have a cycle in its transition graph (a legal endless loop)?"""
    found = []
    def targets(x, acc):
        if isinstance(x, dict):
            for k, v in x.items():
                if k in ("Next", "Default") and isinstance(v, str):
                    acc.append(v)
                elif k not in ("States", "Branches", "Iterator", "ItemProcessor"):
                    targets(v, acc)
        elif isinstance(x, list):
            for v in x:
                targets(v, acc)
        return acc
    def machines(x):
        if isinstance(x, dict):
            if isinstance(x.get("States"), dict):
                yield x["States"]
            for v in x.values():
                yield from machines(v)
        elif isinstance(x, list):
            for v in x:
                yield from machines(v)
    for states in machines(d):
        edges = {n: [t for t in targets(st, []) if t in states] for n, st in states.items()}
        colour = {}
        def dfs(n):
            colour[n] = 1
            for t in edges[n]:
                if colour.get(t) == 1 or (t not in colour and dfs(t)):
                    return True
            colour[n] = 2
            return False
        if any(n not in colour and dfs(n) for n in list(edges)):
            return True
    return False

def field_of(desc):
    """The mutated member, without state names and indices: 'Retry/#/MaxAttempts' for 'retype States/T/Retry/0/MaxAttempts := []'."""
    parts = desc.split(" ")[1].split("/")
    parts = ["#" if p.isdigit() else p for p in parts]
    out = []
    for i, p in enumerate(parts):
        if i > 0 and parts[i - 1] == "States":
            continue
        out.append(p)
    return "/".join(out[-3:])

def run_machine(d, inputs, outcomes):
    """Run an accepted definition for every (input, task outcome): -> list of (status, error, cause, escaped)"""
    from harness.world import World, exec_arn
    res = []
    for ii, inp in enumerate(inputs):
        for oi, o in enumerate(outcomes):
            sc = {"name": "c18", "machines": {"m": {"definition": d}}, "workers": {"f": {"*": [o]}}, "record_sites": False,
                  "starts": [{"machine": "m", "name": "e", "input": inp}], "horizon": 2000.0}
            try:
                w = World(sc)
                w.run(max_steps=3000)
            except Exception as e:
                res.append(("harness", type(e).__name__, str(e)[:100], []))
                continue
            term = [n["body"]["detail"] for n in w.notes if n["body"]["detail"]["status"] != "RUNNING"]
            announced = any(n["body"]["detail"]["status"] == "RUNNING" for n in w.notes)
            if w.enabled():
                # a machine whose transition graph has a cycle may legally run for ever: not judged; without one it must end
                res.append(("still-running" if may_loop(d) else "livelock", None, "", [e[2] for e in w.escaped], len(term), announced))
            elif term:
                res.append((term[-1]["status"], term[-1].get("error"), term[-1].get("cause") or "", [e[2] for e in w.escaped], len(term), announced))
            else:
                res.append((None, None, "", [e[2] for e in w.escaped], 0, announced))
            w.close()
    return res

INPUTS = [{"x": 1, "items": [1, 2], "t": "2030-03-17T17:46:42Z"}, {"x": 9, "items": [], "t": "2030-03-17T17:46:42Z"}, {}]
OUTCOMES = [["ok", {"r": 1}], ["err", "E1", "boom"]]

def _mut_job(args):
    sname, lo, hi = args
    seed = seeds()[sname]
    ms = mutations(seed)[lo:hi]
    out = []
    for desc, m in ms:
        v = validate(m)
        runs = None
        if v == ("problems", 0):
            runs = run_machine(m, INPUTS, OUTCOMES)
        elif v[0] == "problems":
            # a definition the validator refuses can still reach the engine (validate_asl is optional, raw events carry
            # definitions): it may fail, but only its own execution, once, and the engine must go quiet afterwards
            runs = run_machine(m, INPUTS[:1], OUTCOMES)
        out.append((desc, v, runs))
    return out

def _healthy_job(args):
    """A mutated / arbitrary definition or a poison event next to a healthy execution: explore with deviation bound 2."""
    kind, payload = args
    from harness.explorer import explore
    from checks import monsets
    from harness.world import sm_arn, exec_arn
    healthy = chain(("HA", Pass(Result=1, ResultPath="$.a")), ("HT", Task("fh")), ("HZ", Pass()))
    sc = {"name": "c18-healthy", "family": "healthy-beside-%s" % kind, "machines": {"h": {"definition": healthy}}, "workers": {"fh": {"*": [["ok", {"h": 1}]]}, "f": {"*": [["ok", 1]]}},
          "starts": [], "script": []}
    if kind == "definition":
        sc["machines"]["bad"] = {"definition": payload}
        sc["script"] = [{"op": "start", "machine": "bad", "name": "b1", "input": {"x": 1}}, {"op": "start", "machine": "h", "name": "h1", "input": {"k": 1}},
                        {"op": "start", "machine": "h", "name": "h2", "input": {"k": 2}, "after_quiet": True}]
    elif kind == "event-late":
        # the poison arrives while a healthy execution holds an unacknowledged Task event (its request is with the worker)
        sc["workers"]["fh"] = {"*": [["delay", ["ok", {"h": 1}]]]}
        sc["script"] = [{"op": "start", "machine": "h", "name": "h1", "input": {"k": 1}}, {"op": "raw", "body": payload, "needs_request": "fh"},
                        {"op": "start", "machine": "h", "name": "h2", "input": {"k": 2}, "after_quiet": True}]
    elif kind == "event-bytes":
        sc["script"] = [{"op": "raw", "body_hex": payload}, {"op": "start", "machine": "h", "name": "h1", "input": {"k": 1}},
                        {"op": "start", "machine": "h", "name": "h2", "input": {"k": 2}, "after_quiet": True}]
    else:
        sc["script"] = [{"op": "raw", "body": payload}, {"op": "start", "machine": "h", "name": "h1", "input": {"k": 1}},
                        {"op": "start", "machine": "h", "name": "h2", "input": {"k": 2}, "after_quiet": True}]
    sc["expect"] = {exec_arn("h", "h1"): {"status": "SUCCEEDED", "output": {"h": 1}}, exec_arn("h", "h2"): {"status": "SUCCEEDED", "output": {"h": 1}}}
    try:
        r = explore(sc, lambda: monsets.healthy(sc), bound=2, max_states=3000, only=["M-ref", "M-escape", "M-drain", "M-life", "M-ackone"])
    except Exception as e:
        return {"error": "%s: %s" % (type(e).__name__, str(e)[:200]), "states": 0, "transitions": 0, "violations": []}
    viols = [v.to_json() for v, tr, p in r.violations]
    # "at worst fails its own execution with a terminal FAILED status": an execution that was announced RUNNING must end, and end once
    viols = [v for v in viols if v["monitor"] != "M-life" or (v["kind"] == "never_terminal" and "RUNNING" in v["detail"]) or v["kind"] in ("second_running", "notification_after_terminal")]
    # the healthy executions must both have reached SUCCEEDED on every explored schedule: outcomes record it
    bad_out = [k for k in r.outcomes if k.count("SUCCEEDED") < 2 + (1 if False else 0)]
    if "depth" in r.caps and not (kind == "definition" and may_loop(payload)):
        viols.append({"monitor": "M-life", "kind": "livelock", "detail": "a path of more than 400 steps: the engine never goes quiet although nothing it runs has a cycle"})
    return {"states": r.states, "transitions": r.transitions, "violations": viols, "bad_outcomes": bad_out[:2], "paths": r.replays + 1}

def run(tier, seed):
    cr = common.CheckResult(PROP)
    sd = seeds()
    jobs = []
    for sname, s in sd.items():
        n = len(mutations(s))
        step = 40
        for lo in range(0, n, step):
            jobs.append((sname, lo, min(n, lo + step)))
    vals = json_values()
    hjobs = []
    for sname in ("pass-chain", "choice", "parallel"):
        ms = mutations(sd[sname])
        for i, (desc, m) in enumerate(ms):
            # every mutant that replaces a whole state (at any nesting level) by a wrong JSON type, and a regular sample of the rest
            whole_state = desc.startswith("retype ") and desc.split(" ")[1].split("/")[-2:-1] == ["States"]
            if whole_state or i % (7 if tier == "quick" else 2) == 0:
                hjobs.append(("definition", m))
    for v in vals[:: (3 if tier == "quick" else 1)]:
        hjobs.append(("definition", v))
        hjobs.append(("event", json.dumps(v)))
        hjobs.append(("event", json.dumps({"data": v, "context": {"StateMachine": {"Id": "arn:aws:states:local:0123456789:stateMachine:h"}, "State": v}})))
        hjobs.append(("event", json.dumps({"data": {}, "context": {"StateMachine": {"Id": "arn:aws:states:local:0123456789:stateMachine:h"}, "State": {"Name": "HT"}, "Execution": v}})))
    # events for a state in the middle of an execution (as the engine publishes them) whose Execution context is incomplete or odd,
    # in and outside a branch
    HX = "arn:aws:states:local:0123456789:execution:h:poison"
    for ex in ({"Id": HX}, {"Id": HX, "Input": {}}, {"Id": HX, "StartTime": "2030-03-17T17:46:40+00:00"}, {"Id": HX, "Input": {}, "StartTime": "not-a-time"},
               {"Id": "weird", "Input": {}, "StartTime": "2030-03-17T17:46:40+00:00"}, {"Id": 5, "Input": {}, "StartTime": "2030-03-17T17:46:40+00:00"}, {"Input": {}}):
        for st in ({"Name": "HT"}, {"Name": "HZ"}, {"Name": "HT", "Branch": [{"Parent": "HA", "ID": "x", "Index": 0, "Length": 1, "Input": {}}]}):
            hjobs.append(("event", json.dumps({"data": {}, "context": {"StateMachine": {"Id": "arn:aws:states:local:0123456789:stateMachine:h"}, "State": st, "Execution": ex}})))
    for body in ("{not json", "[1]", "5", json.dumps({"data": {}}), json.dumps({"data": {}, "context": {"StateMachine": {"Id": "arn:aws:states:local:0123456789:stateMachine:ghost"}}}),
                 json.dumps({"data": {}, "context": {"StateMachine": {"Id": "arn:aws:states:local:0123456789:stateMachine:h"}, "State": {"Name": "Nope"}, "Execution": {"Id": HX, "Input": {}, "StartTime": "2030-03-17T17:46:40+00:00"}}})):
        hjobs.append(("event-late", body))
    for raw in ('{"data": "caf\u00e9", "context": {}}'.encode("latin-1"), '{"data": {}, "context": {}}'.encode("utf-16"), b"\x1f\x8b\x08\x00\xfe\xff\x80\x81", b"\xff", b"\xc3"):
        hjobs.append(("event-bytes", raw.hex()))
    ctx = multiprocessing.get_context("fork")
    with ctx.Pool(common.JOBS) as pool:
        outs = pool.map(_mut_job, jobs, chunksize=1)
        vouts = pool.map(validate, vals, chunksize=20)
        houts = pool.map(_healthy_job, hjobs, chunksize=2)
    nm = acc = runs = rej = 0
    for (sname, lo, hi), res in zip(jobs, outs):
        for desc, v, rr in res:
            nm += 1
            op = desc.split(" ")[0]
            if v[0] != "problems":
                sig = "validator|%s|%s" % (v[0], v[1] if v[0] == "raise" else "")
                cr.add(sig, "StateLint.validate on %s [%s] -> %r (must return a list of problems)" % (sname, desc, v), {"kind": "mutation", "property": PROP, "signature": sig, "seed": sname, "mutation": desc}, size=len(desc))
                continue
            if v[1] > 0:
                rej += 1
                for r in rr:
                    runs += 1
                    status, escaped, nterm, announced = r[0], r[3], r[4], r[5] if len(r) > 5 else False
                    bad = None
                    if status == "harness":
                        bad = ("engine-raises", "%s %s" % (r[1], r[2]))
                    elif escaped:
                        bad = ("exception-escapes", escaped[0][:120])
                    elif status == "livelock":
                        bad = ("never-quiet", "still running after 3000 steps although no machine of the definition has a cycle")
                    elif nterm > 1:
                        bad = ("ends-twice", "%d terminal notifications" % nterm)
                    elif status is None and announced:
                        bad = ("never-terminal", "announced RUNNING, no terminal status at quiescence")
                    if bad:
                        sig = "rejected|%s|%s|%s" % (bad[0], op, field_of(desc))
                        cr.add(sig, "%s [%s] is refused by the validator; run anyway: %s" % (sname, desc, bad[1]), {"kind": "mutation", "property": PROP, "signature": sig, "seed": sname, "mutation": desc}, size=len(desc))
            if v[1] == 0:
                acc += 1
                for r in rr:
                    runs += 1
                    status, err, cause, escaped = r[0], r[1], r[2], r[3]
                    bad = None
                    if status == "harness":
                        bad = ("engine-raises", "%s %s" % (err, cause))
                    elif escaped:
                        bad = ("exception-escapes", escaped[0][:120])
                    elif status is None:
                        bad = ("never-terminal", "no terminal status")
                    elif status == "livelock":
                        bad = ("never-terminal", "still running after 3000 steps although no machine of the definition has a cycle")
                    elif any(x in str(cause) for x in ILLEGAL):
                        bad = ("illegal-state-machine-at-run-time", str(cause)[-160:])
                    if bad:
                        sig = "accepted|%s|%s|%s" % (bad[0], op, field_of(desc))
                        cr.add(sig, "%s [%s] has no validator problems but at run time: %s" % (sname, desc, bad[1]), {"kind": "mutation", "property": PROP, "signature": sig, "seed": sname, "mutation": desc}, size=len(desc))
    for v, r in zip(vals, vouts):
        if r[0] != "problems":
            sig = "validator|%s|%s" % (r[0], r[1] if r[0] == "raise" else "")
            cr.add(sig, "StateLint.validate(%s) -> %r (must return a list of problems)" % (json.dumps(v), r), {"kind": "value", "property": PROP, "signature": sig, "value": v}, size=len(json.dumps(v)))
        elif r[1] == 0:
            # "no problem" is a promise that the engine can interpret the value as a state machine: an execution of it starts and ends
            for rr in run_machine(v, INPUTS[:1], OUTCOMES[:1]):
                runs += 1
                status, err, cause, escaped = rr[0], rr[1], rr[2], rr[3]
                bad = None
                if status == "harness":
                    bad = ("engine-raises", "%s %s" % (err, cause))
                elif escaped:
                    bad = ("exception-escapes", escaped[0][:120])
                elif status is None or status == "livelock":
                    bad = ("never-runs", "an execution of it is never announced and never ends (the start event is dropped)")
                elif any(x in str(cause) for x in ILLEGAL):
                    bad = ("illegal-state-machine-at-run-time", str(cause)[-160:])
                if bad:
                    sig = "accepted-value|%s|%s" % (bad[0], type(v).__name__)
                    cr.add(sig, "StateLint.validate(%s) reports no problem, but as a definition: %s" % (json.dumps(v), bad[1]), {"kind": "value", "property": PROP, "signature": sig, "value": v}, size=len(json.dumps(v)))
    hs = ht = hp = 0
    for (kind, payload), o in zip(hjobs, houts):
        if "error" in o:
            raise RuntimeError("harness error in healthy job: " + o["error"])
        hs += o["states"]; ht += o["transitions"]; hp += o.get("paths", 0)
        for v in o["violations"]:
            if v["monitor"] == "M-drain" and not v["kind"].startswith(("unacked", "queued")):
                continue     # C18 asks that the poison event is acknowledged; what the bad execution itself leaves behind is C03's subject
            sig = "healthy|%s|%s|%s" % (kind, v["monitor"], v["kind"])
            cr.add(sig, "beside %s %s: %s" % (kind, json.dumps(payload)[:120], v["detail"]), {"kind": "healthy", "property": PROP, "signature": sig, "what": kind, "payload": payload}, size=len(json.dumps(payload)))
        for k in o.get("bad_outcomes", []):
            sig = "healthy|%s|healthy-execution-did-not-succeed" % kind
            cr.add(sig, "beside %s %s a healthy execution did not reach SUCCEEDED: %s" % (kind, json.dumps(payload)[:120], k[:200]), {"kind": "healthy", "property": PROP, "signature": sig, "what": kind, "payload": payload}, size=len(json.dumps(payload)))
    cr.coverage = {
        "states": max(hs, 1), "transitions": max(ht, 1), "traces_validated_against_impl": hp + runs,
        "evaluations": nm + len(vals) + len(hjobs), "distinct_nontrivial": acc + len(hjobs),
        "samples": [{"seed": "choice", "mutation": "retarget States/C/Default -> Missing"}, {"event_body": "[1]"}],
        "mutants": nm, "mutants_accepted_by_validator": acc, "mutants_refused_and_run_anyway": rej, "engine_runs_of_accepted_mutants": runs, "json_values_validated": len(vals), "healthy_explorations": len(hjobs),
        "exhaustive": True,
        "explanation": "all single mutations (drop / rename a field, retarget Next / Default / StartAt, retag Type, duplicate a state name across nesting levels, replace a value by each wrong JSON type) of 14 "
                       "well-formed seed machines and a family of small JSON values are given to StateLint.validate (must return a list); every mutant without problems is run by the real engine for 3 inputs x "
                       "{task succeeds, task fails} (no 'Illegal State Machine', must end unless a machine has a cycle); every refused mutant is run too (must not raise, must go quiet, must end at most once, "
                       "must end if it was announced RUNNING); mutants, JSON values (as definitions) and malformed event bodies are placed next to two healthy executions and explored with deviation bound 2",
    }
    cr.assumptions = list(common.ASSUME_SIM)
    return cr

def replay(rp):
    if rp["kind"] == "mutation":
        seed = seeds()[rp["seed"]]
        for desc, m in mutations(seed):
            if desc == rp["mutation"]:
                v = validate(m)
                print("validate ->", v)
                print(run_machine(m, INPUTS, OUTCOMES))
                return 1
    if rp["kind"] == "value":
        v = validate(rp["value"])
        print("validate ->", v)
        if v == ("problems", 0):
            print(run_machine(rp["value"], INPUTS[:1], OUTCOMES[:1]))
        return 1
    print(_healthy_job((rp["what"], rp["payload"])))
    return 1
