"""Named monitor sets (so that a replay file can rebuild exactly the monitors that produced it)."""
from harness.monitors import MLife, MCarry, MDrain, MEscape

def base(scenario):
    life = MLife()
    return [life, MCarry(), MDrain(life), MEscape()]

SETS = {"base": base}

def get(name):
    return SETS[name]
