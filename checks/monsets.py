"""Named monitor sets (so that a replay file can rebuild exactly the monitors that produced it)."""
from harness.monitors import MAckOne, MLife, MCarry, MDrain, MEscape, MHist, MViews, MFail, MRef, MJoin, MCrash, MTime, MChild, MRoute

def base(scenario):
    life = MLife()
    return [life, MCarry(), MDrain(life), MEscape()]

def full(scenario):
    life = MLife()
    return [life, MCarry(), MDrain(life), MEscape(), MHist(), MViews(), MFail(), MRef(scenario), MJoin(scenario)]

def crash(scenario):
    life = MLife()
    return [life, MCarry(), MDrain(life), MEscape(), MCrash(scenario)]

def timing(scenario):
    life = MLife()
    return [life, MEscape(), MRef(scenario), MTime(scenario), MCrash(scenario)]

def child(scenario):
    life = MLife()
    return [life, MCarry(), MDrain(life), MEscape(), MChild(scenario)]

def healthy(scenario):
    """Monitors that never look inside a (possibly malformed) definition."""
    life = MLife()
    return [life, MDrain(life), MEscape(), MRef(scenario), MAckOne()]

def route(scenario):
    life = MLife()
    return [life, MCarry(), MDrain(life), MEscape(), MRoute(scenario), MRef(scenario)] + ([MChild(scenario)] if scenario.get("child_form") else [])

SETS = {"route": route, "healthy": healthy, "base": base, "full": full, "crash": crash, "timing": timing, "child": child}

def get(name):
    return SETS[name]
