"""C10 - the state-machine and execution API behaves like a simple keyed store (breadth-first search over store states,
every call of a ~75-call alphabet applied in every reachable state, answers compared with a reference map)."""
import json, copy, time, multiprocessing
from . import common

PROP = "C10"
R1 = "arn:aws:iam::0123456789:role/r"
R2 = "arn:aws:iam::0123456789:role/r2"
D1 = {"StartAt": "A", "States": {"A": {"Type": "Pass", "End": True}}}
D2 = {"StartAt": "A", "States": {"A": {"Type": "Pass", "Result": 1, "ResultPath": "$.x", "Next": "B"}, "B": {"Type": "Pass", "End": True}}}
S1, S2 = json.dumps(D1), json.dumps(D2)
LINTBAD = json.dumps({"StartAt": "A", "States": {"A": {"Type": "Pass", "End": True}, "U": {"Type": "Pass", "End": True}}})      # a state nothing leads to
DUPKEYS = '{"StartAt": "A", "States": {"A": {"Type": "Pass", "End": true}}, "StartAt": "A"}'
STRICT_TAGS = ("create-ma", "create-ma-d2", "create-ma-lintbad", "create-ma-dupkeys", "update-ma-lintbad", "update-ma-dupkeys-role", "update-ma-def", "update-ma-role-baddef",
               "describe-ma", "delete-ma", "list", "start-ma-e1", "descexec-ma-e1", "create-notjsondef", "create-emptydef")
LOG_ALL = {"level": "ALL", "includeExecutionData": True, "destinations": [{"cloudWatchLogsLogGroup": {"logGroupArn": "arn:aws:logs:local:0123456789:log-group:x"}}]}

def sm(n):
    return "arn:aws:states:local:0123456789:stateMachine:" + n
def ex(m, n):
    return "arn:aws:states:local:0123456789:execution:%s:%s" % (m, n)

import re
ANON_RE = re.compile(r"[0-9a-f]{8}-[0-9a-f]{4}-[0-9a-f]{4}-[0-9a-f]{4}-[0-9a-f]{12}")
def anon(text):
    """Generated execution names renamed by first occurrence (both the reference's and the stores' canonical text list them in the same order)."""
    names = {}
    return ANON_RE.sub(lambda mo: names.setdefault(mo.group(0), "ANON%d" % len(names)), text)

VALIDATION = {"ValidationException", "MissingRequiredParameter", "SerializationException", "InvalidName", "InvalidArn", "InvalidDefinition",
              "InvalidExecutionInput", "InvalidLoggingConfiguration", "StateMachineTypeNotSupported", "InvalidToken", "InvalidOutput"}

def alphabet(tier):
    """(tag, action, params | raw body, fault) ; fault None = well-formed request."""
    A = []
    c = lambda tag, action, params=None, fault=None, **kw: A.append(dict(tag=tag, action=action, params=params, fault=fault, **kw))
    big = "x" * 1048577
    c("create-ma", "CreateStateMachine", {"name": "ma", "roleArn": R1, "definition": S1})
    c("create-ma-d2", "CreateStateMachine", {"name": "ma", "roleArn": R2, "definition": S2, "type": "STANDARD"})
    c("create-ma-x", "CreateStateMachine", {"name": "ma-x", "roleArn": R1, "definition": S1})
    c("start-ma-x-e1", "StartExecution", {"stateMachineArn": sm("ma-x"), "name": "e1", "input": "{}"})
    c("listexec-ma-x", "ListExecutions", {"stateMachineArn": sm("ma-x")})
    c("create-mb-express", "CreateStateMachine", {"name": "mb", "roleArn": R1, "definition": S2, "type": "EXPRESS", "loggingConfiguration": LOG_ALL})
    for tag, nm in (("empty", ""), ("space", "a b"), ("81", "n" * 81), ("colon", "a:b"), ("slash", "a/b"), ("star", "a*"), ("int", 5), ("null", None)):
        c("create-badname-" + tag, "CreateStateMachine", {"name": nm, "roleArn": R1, "definition": S1}, {"InvalidName"} if isinstance(nm, str) else VALIDATION)
    c("create-noname", "CreateStateMachine", {"roleArn": R1, "definition": S1}, {"InvalidName", "MissingRequiredParameter", "ValidationException"})
    # definitions that are JSON but that the bundled validator refuses / that repeat a member name: stored as given unless the front end
    # is configured to validate (validate_asl), in which case they are refused as InvalidDefinition and nothing changes
    c("create-ma-lintbad", "CreateStateMachine", {"name": "ma", "roleArn": R1, "definition": LINTBAD}, strict_fault={"InvalidDefinition"})
    c("create-ma-dupkeys", "CreateStateMachine", {"name": "ma", "roleArn": R1, "definition": DUPKEYS}, strict_fault={"InvalidDefinition"})
    c("update-ma-lintbad", "UpdateStateMachine", {"stateMachineArn": sm("ma"), "definition": LINTBAD}, strict_fault={"InvalidDefinition"})
    c("update-ma-dupkeys-role", "UpdateStateMachine", {"stateMachineArn": sm("ma"), "roleArn": R2, "definition": DUPKEYS}, strict_fault={"InvalidDefinition"})
    c("create-name80", "CreateStateMachine", {"name": "n" * 80, "roleArn": R1, "definition": S1})
    c("create-badrole", "CreateStateMachine", {"name": "mc", "roleArn": "x", "definition": S1}, {"InvalidArn"})
    # role ARNs that are almost right: no account, letters in the account, another service, no role name, a user instead of a role
    for tag, ra_ in (("noaccount", "arn:aws:iam:::role/r"), ("alphaaccount", "arn:aws:iam::abc:role/r"), ("service", "arn:aws:s3::0123456789:role/r"),
                     ("noname", "arn:aws:iam::0123456789:role/"), ("user", "arn:aws:iam::0123456789:user/r"), ("region", "arn:aws:iam:local:0123456789:role/r")):
        c("create-badrole-" + tag, "CreateStateMachine", {"name": "mc", "roleArn": ra_, "definition": S1}, {"InvalidArn"})
    c("update-ma-badrole-noaccount", "UpdateStateMachine", {"stateMachineArn": sm("ma"), "roleArn": "arn:aws:iam:::role/r"}, {"InvalidArn"})
    c("create-norole", "CreateStateMachine", {"name": "mc", "definition": S1}, {"InvalidArn", "MissingRequiredParameter", "ValidationException"})
    c("create-introle", "CreateStateMachine", {"name": "mc", "roleArn": 7, "definition": S1}, VALIDATION)
    c("create-badtype", "CreateStateMachine", {"name": "mc", "roleArn": R1, "definition": S1, "type": "BOGUS"}, {"StateMachineTypeNotSupported", "ValidationException"})
    c("create-emptydef", "CreateStateMachine", {"name": "mc", "roleArn": R1, "definition": ""}, {"InvalidDefinition"})
    c("create-nodef", "CreateStateMachine", {"name": "mc", "roleArn": R1}, {"InvalidDefinition", "MissingRequiredParameter", "ValidationException"})
    c("create-notjsondef", "CreateStateMachine", {"name": "mc", "roleArn": R1, "definition": "{nope"}, {"InvalidDefinition"})
    c("create-intdef", "CreateStateMachine", {"name": "mc", "roleArn": R1, "definition": 5}, VALIDATION)
    c("create-bigdef", "CreateStateMachine", {"name": "mc", "roleArn": R1, "definition": big}, {"InvalidDefinition"})
    c("create-badloglevel", "CreateStateMachine", {"name": "mc", "roleArn": R1, "definition": S1, "loggingConfiguration": {"level": "LOUD"}}, {"InvalidLoggingConfiguration"})
    c("create-lognodest", "CreateStateMachine", {"name": "mc", "roleArn": R1, "definition": S1, "loggingConfiguration": {"level": "ALL"}}, {"InvalidLoggingConfiguration"})
    c("create-logtwodest", "CreateStateMachine", {"name": "mc", "roleArn": R1, "definition": S1, "loggingConfiguration": {"level": "ERROR", "destinations": [{}, {}]}}, {"InvalidLoggingConfiguration"})
    c("create-logstr", "CreateStateMachine", {"name": "mc", "roleArn": R1, "definition": S1, "loggingConfiguration": "ALL"}, VALIDATION)
    for n in ("ma", "mb", "mc"):
        c("describe-" + n, "DescribeStateMachine", {"stateMachineArn": sm(n)})
    c("describe-badarn", "DescribeStateMachine", {"stateMachineArn": "x"}, {"InvalidArn"})
    c("describe-noarn", "DescribeStateMachine", {}, {"MissingRequiredParameter", "InvalidArn", "ValidationException"})
    c("describe-intarn", "DescribeStateMachine", {"stateMachineArn": 5}, VALIDATION)
    c("update-ma-role", "UpdateStateMachine", {"stateMachineArn": sm("ma"), "roleArn": R2})
    c("update-ma-def", "UpdateStateMachine", {"stateMachineArn": sm("ma"), "definition": S2})
    c("update-ma-both", "UpdateStateMachine", {"stateMachineArn": sm("ma"), "roleArn": R1, "definition": S1})
    c("update-ma-log", "UpdateStateMachine", {"stateMachineArn": sm("ma"), "roleArn": R1, "loggingConfiguration": LOG_ALL})
    c("update-ma-neither", "UpdateStateMachine", {"stateMachineArn": sm("ma")}, {"MissingRequiredParameter", "ValidationException"})
    c("update-ma-badrole", "UpdateStateMachine", {"stateMachineArn": sm("ma"), "roleArn": "x"}, {"InvalidArn"})
    c("update-ma-role-baddef", "UpdateStateMachine", {"stateMachineArn": sm("ma"), "roleArn": R2, "definition": "{nope"}, {"InvalidDefinition"})
    c("update-ma-bigdef", "UpdateStateMachine", {"stateMachineArn": sm("ma"), "definition": big}, {"InvalidDefinition"})
    c("update-ma-intdef", "UpdateStateMachine", {"stateMachineArn": sm("ma"), "definition": 5}, VALIDATION)
    c("update-ma-role-badlog", "UpdateStateMachine", {"stateMachineArn": sm("ma"), "roleArn": R2, "loggingConfiguration": {"level": "LOUD"}}, {"InvalidLoggingConfiguration"})
    c("update-ma-def-lognodest", "UpdateStateMachine", {"stateMachineArn": sm("ma"), "definition": S2, "loggingConfiguration": {"level": "ALL"}}, {"InvalidLoggingConfiguration"})
    c("update-mc", "UpdateStateMachine", {"stateMachineArn": sm("mc"), "roleArn": R2})
    c("update-badarn", "UpdateStateMachine", {"stateMachineArn": "x", "roleArn": R2}, {"InvalidArn"})
    c("update-noarn", "UpdateStateMachine", {"roleArn": R2}, {"MissingRequiredParameter", "InvalidArn", "ValidationException"})
    for n in ("ma", "mb", "mc"):
        c("delete-" + n, "DeleteStateMachine", {"stateMachineArn": sm(n)})
    c("delete-badarn", "DeleteStateMachine", {"stateMachineArn": "x"}, {"InvalidArn"})
    c("delete-noarn", "DeleteStateMachine", {}, {"MissingRequiredParameter", "InvalidArn", "ValidationException"})
    c("list", "ListStateMachines", {})
    c("start-ma-e1", "StartExecution", {"stateMachineArn": sm("ma"), "name": "e1", "input": "{\"a\": 1}"})
    c("start-ma-e2-noinput", "StartExecution", {"stateMachineArn": sm("ma"), "name": "e2"})
    c("start-ma-unnamed", "StartExecution", {"stateMachineArn": sm("ma"), "input": "{\"u\": 1}"})
    c("start-mb-e1", "StartExecution", {"stateMachineArn": sm("mb"), "name": "e1", "input": "{}"})
    c("start-mc", "StartExecution", {"stateMachineArn": sm("mc"), "name": "e1"})
    c("start-badname", "StartExecution", {"stateMachineArn": sm("ma"), "name": "a b"}, {"InvalidName"})
    c("start-badinput", "StartExecution", {"stateMachineArn": sm("ma"), "name": "e3", "input": "{nope"}, {"InvalidExecutionInput"})
    c("start-intinput", "StartExecution", {"stateMachineArn": sm("ma"), "name": "e3", "input": 5}, VALIDATION)
    c("start-badarn", "StartExecution", {"stateMachineArn": "x", "name": "e3"}, {"InvalidArn"})
    c("start-noarn", "StartExecution", {"name": "e3"}, {"MissingRequiredParameter", "InvalidArn", "ValidationException"})
    for m, n in (("ma", "e1"), ("ma", "e2"), ("mb", "e1"), ("ma", "e9")):
        c("descexec-%s-%s" % (m, n), "DescribeExecution", {"executionArn": ex(m, n)})
    c("descexec-badarn", "DescribeExecution", {"executionArn": "x"}, {"InvalidArn"})
    c("descexec-noarn", "DescribeExecution", {}, {"MissingRequiredParameter", "InvalidArn", "ValidationException"})
    for n in ("ma", "mb", "mc"):
        c("listexec-" + n, "ListExecutions", {"stateMachineArn": sm(n)})
    c("listexec-ma-succeeded", "ListExecutions", {"stateMachineArn": sm("ma"), "statusFilter": "SUCCEEDED"})
    c("listexec-ma-running", "ListExecutions", {"stateMachineArn": sm("ma"), "statusFilter": "RUNNING"})
    for f in ("FAILED", "TIMED_OUT", "ABORTED"):
        c("listexec-ma-" + f.lower(), "ListExecutions", {"stateMachineArn": sm("ma"), "statusFilter": f})
    c("listexec-mb-succeeded", "ListExecutions", {"stateMachineArn": sm("mb"), "statusFilter": "SUCCEEDED"})
    c("listexec-badarn", "ListExecutions", {"stateMachineArn": "x"}, {"InvalidArn"})
    c("smforexec-ma-e1", "DescribeStateMachineForExecution", {"executionArn": ex("ma", "e1")})
    c("smforexec-ma-e9", "DescribeStateMachineForExecution", {"executionArn": ex("ma", "e9")})
    c("smforexec-badarn", "DescribeStateMachineForExecution", {"executionArn": "x"}, {"InvalidArn"})
    # arguments of the wrong JSON *container* type (arrays / objects where a string is expected): a validation error, never an internal one
    for tag, val in (("array", ["N"]), ("object", {"n": "N"})):
        c("create-name-" + tag, "CreateStateMachine", {"name": val, "roleArn": R1, "definition": S1}, VALIDATION)
        c("create-role-" + tag, "CreateStateMachine", {"name": "mc", "roleArn": val, "definition": S1}, VALIDATION)
        c("create-def-" + tag, "CreateStateMachine", {"name": "mc", "roleArn": R1, "definition": val}, VALIDATION)
        c("create-type-" + tag, "CreateStateMachine", {"name": "mc", "roleArn": R1, "definition": S1, "type": val}, VALIDATION | {"StateMachineTypeNotSupported"})
        c("describe-arn-" + tag, "DescribeStateMachine", {"stateMachineArn": val}, VALIDATION)
        c("update-arn-" + tag, "UpdateStateMachine", {"stateMachineArn": val, "roleArn": R2}, VALIDATION)
        c("delete-arn-" + tag, "DeleteStateMachine", {"stateMachineArn": val}, VALIDATION)
        c("start-arn-" + tag, "StartExecution", {"stateMachineArn": val, "name": "e3"}, VALIDATION)
        c("start-name-" + tag, "StartExecution", {"stateMachineArn": sm("ma"), "name": val}, VALIDATION)
        c("descexec-arn-" + tag, "DescribeExecution", {"executionArn": val}, VALIDATION)
        c("listexec-arn-" + tag, "ListExecutions", {"stateMachineArn": val}, VALIDATION)
        c("smforexec-arn-" + tag, "DescribeStateMachineForExecution", {"executionArn": val}, VALIDATION)
    # malformed requests: some 4xx, nothing stored, never a 5xx
    for tag, raw in (("notjson", "{nope"), ("array", "[1, 2]"), ("string", "\"hello\""), ("null", "null"), ("number", "5")):
        c("create-body-" + tag, "CreateStateMachine", None, "any4xx", raw=raw)
        c("start-body-" + tag, "StartExecution", None, "any4xx", raw=raw)
    # a request without any of its parameters, for every action that needs one
    for act in ("CreateStateMachine", "UpdateStateMachine", "StartExecution", "StartSyncExecution", "DescribeStateMachine", "DeleteStateMachine", "DescribeExecution",
                "DescribeStateMachineForExecution", "ListExecutions", "GetExecutionHistory", "SendTaskSuccess", "SendTaskFailure"):
        c("noparams-" + act, act, {}, VALIDATION | {"InvalidToken", "InvalidOutput", "StateMachineDoesNotExist", "ExecutionDoesNotExist"})
    # StartSyncExecution requests that are refused at once (the accepted ones block until the execution ends: C11's subject)
    c("sync-badarn", "StartSyncExecution", {"stateMachineArn": "x", "name": "s1"}, {"InvalidArn"})
    c("sync-badname", "StartSyncExecution", {"stateMachineArn": sm("mb"), "name": "a b"}, {"InvalidName"})
    c("sync-badinput", "StartSyncExecution", {"stateMachineArn": sm("mb"), "name": "s1", "input": "{nope"}, {"InvalidExecutionInput"})
    c("sync-intinput", "StartSyncExecution", {"stateMachineArn": sm("mb"), "name": "s1", "input": 5}, {"InvalidExecutionInput"} | VALIDATION)
    c("sync-ghost", "StartSyncExecution", {"stateMachineArn": sm("ghost"), "name": "s1"}, {"StateMachineDoesNotExist"})
    c("sync-standard-ma", "StartSyncExecution", {"stateMachineArn": sm("ma"), "name": "s1"}, {"StateMachineTypeNotSupported"})
    c("histexec-badarn", "GetExecutionHistory", {"executionArn": "x"}, {"InvalidArn"})
    # bodies that are not even text / not complete, for every kind of action (the body is decoded before the action is looked at)
    for act in ("CreateStateMachine", "UpdateStateMachine", "StartExecution", "DescribeStateMachine", "ListStateMachines", "DeleteStateMachine",
                "DescribeExecution", "ListExecutions", "StopExecution", "GetExecutionHistory", "SendTaskSuccess", "SendTaskFailure", "SendTaskHeartbeat"):
        c("body-truncated-" + act, act, None, "any4xx", raw=json.dumps({"stateMachineArn": sm("ma"), "name": "e9", "definition": S1})[:-7])
        c("body-empty-" + act, act, None, "any4xx", raw="")
        c("body-latin1-" + act, act, None, "any4xx", raw_hex='{"name": "caf\u00e9"}'.encode("latin-1").hex())
        c("body-binary-" + act, act, None, "any4xx", raw_hex=b"\x1f\x8b\x08\x00\xfe\xff\x80\x81".hex())
    c("unknown-action", "FrobnicateStateMachine", {}, "any4xx")
    c("bad-content-type", "ListStateMachines", {}, "any4xx", content_type="application/json")
    c("bad-target", "ListStateMachines", {}, "any4xx", target="Nope.ListStateMachines")
    return A

# ------------------------------------------------------------------------------------------------------
class Ref(object):
    """The reference: two maps."""
    def __init__(self):
        self.machines = {}
        self.execs = {}

    def clone(self):
        r = Ref(); r.machines = copy.deepcopy(self.machines); r.execs = copy.deepcopy(self.execs); r.logging = getattr(self, "logging", True); r.strict = getattr(self, "strict", False); r.max_anon = getattr(self, "max_anon", 2)
        return r

    def expect(self, call, now):
        """-> ('error', allowed types) | ('any4xx',) | ('ok', body checker, mutate fn or None)"""
        a, p, fault = call["action"], call["params"], call["fault"]
        if getattr(self, "strict", False) and call.get("strict_fault"):
            fault = set(call["strict_fault"])
            if a == "CreateStateMachine" and sm(p["name"]) in self.machines:
                fault.add("StateMachineAlreadyExists")      # two faults: refused for either
        if fault == "any4xx":
            return ("any4xx",)
        if fault is not None:
            allowed = set(fault)
            # a request with two faults (here: a second fault next to an unknown ARN) may be refused for either
            if isinstance(p, dict) and isinstance(p.get("stateMachineArn"), str) and p["stateMachineArn"].startswith("arn:aws:states:") and p["stateMachineArn"] not in self.machines:
                allowed.add("StateMachineDoesNotExist")
            return ("error", allowed)
        M, E = self.machines, self.execs
        if a == "CreateStateMachine":
            arn = sm(p["name"])
            if arn in M:
                return ("error", {"StateMachineAlreadyExists"})
            rec = {"creationDate": now, "definition": json.loads(p["definition"]), "name": p["name"], "roleArn": p["roleArn"], "stateMachineArn": arn,
                   "updateDate": now, "status": "ACTIVE", "type": p.get("type", "STANDARD"),
                   "loggingConfiguration": dict(p.get("loggingConfiguration") or {}, level=(p.get("loggingConfiguration") or {}).get("level", "OFF"))}
            if not getattr(self, "logging", True):
                del rec["loggingConfiguration"]
            return ("ok", lambda b: b == {"creationDate": now, "stateMachineArn": arn}, lambda: M.__setitem__(arn, rec))
        if a == "DescribeStateMachine":
            arn = p["stateMachineArn"]
            if arn not in M:
                return ("error", {"StateMachineDoesNotExist"})
            want = copy.deepcopy(M[arn])
            def chk(b):
                if not isinstance(b, dict) or not isinstance(b.get("definition"), str):
                    return False
                b = dict(b); b["definition"] = json.loads(b["definition"])
                return b == want
            return ("ok", chk, None)
        if a == "UpdateStateMachine":
            arn = p["stateMachineArn"]
            if arn not in M:
                return ("error", {"StateMachineDoesNotExist"})
            def mut():
                r = M[arn]
                if "roleArn" in p: r["roleArn"] = p["roleArn"]
                if "definition" in p: r["definition"] = json.loads(p["definition"])
                if p.get("loggingConfiguration"): r["loggingConfiguration"] = dict(p["loggingConfiguration"], level=p["loggingConfiguration"].get("level", "OFF"))
                r["updateDate"] = now
            return ("ok", lambda b: b == {"updateDate": now} and now > M[arn]["updateDate"], mut)
        if a == "DeleteStateMachine":
            arn = p["stateMachineArn"]
            if arn not in M:
                return ("error", {"StateMachineDoesNotExist"})
            return ("ok", lambda b: b in (None, "", {}), lambda: M.pop(arn))
        if a == "ListStateMachines":
            want = sorted(json.dumps({k: r[k] for k in ("creationDate", "name", "stateMachineArn", "type")}, sort_keys=True) for r in M.values())
            return ("ok", lambda b: isinstance(b, dict) and sorted(json.dumps(x, sort_keys=True) for x in b.get("stateMachines", [])) == want and set(b) <= {"stateMachines", "nextToken"}, None)
        if a == "StartExecution":
            arn = p["stateMachineArn"]
            if arn not in M:
                return ("error", {"StateMachineDoesNotExist"})
            inp = json.loads(p.get("input", "{}"))
            d = M[arn]["definition"]
            out = dict(inp, x=1) if d == D2 else inp
            if "name" not in p:
                # an execution started without a name gets a fresh one: never the ARN of an execution that already exists
                if sum(1 for r in E.values() if ANON_RE.search(r["name"])) >= getattr(self, "max_anon", 2):
                    return ("skip",)       # bound: at most two unnamed executions in a store state
                got = {}
                def chk(b):
                    if not isinstance(b, dict) or b.get("startDate") != now or not isinstance(b.get("executionArn"), str):
                        return False
                    pre = ex(M[arn]["name"], "")
                    nm = b["executionArn"][len(pre):]
                    got["arn"], got["name"] = b["executionArn"], nm
                    return b["executionArn"].startswith(pre) and ANON_RE.fullmatch(nm) is not None and b["executionArn"] not in E
                def mut():
                    if M[arn]["type"] == "STANDARD":
                        E[got["arn"]] = {"executionArn": got["arn"], "input": inp, "name": got["name"], "output": out, "startDate": now, "stateMachineArn": arn,
                                         "status": "SUCCEEDED", "stopDate": now}
                return ("ok", chk, mut)
            earn = ex(M[arn]["name"], p["name"])
            def mut():
                if M[arn]["type"] == "STANDARD":
                    E[earn] = {"executionArn": earn, "input": inp, "name": p["name"], "output": out, "startDate": now, "stateMachineArn": arn,
                               "status": "SUCCEEDED", "stopDate": now}
            return ("ok", lambda b: b == {"executionArn": earn, "startDate": now}, mut)
        if a == "DescribeExecution":
            earn = p["executionArn"]
            if earn not in E:
                return ("error", {"ExecutionDoesNotExist"})
            want = E[earn]
            def chk(b):
                try:
                    b = dict(b); b["input"] = json.loads(b["input"]); b["output"] = json.loads(b["output"])
                except Exception:
                    return False
                return b == want
            return ("ok", chk, None)
        if a == "ListExecutions":
            arn = p["stateMachineArn"]
            if arn not in M:
                return ("error", {"StateMachineDoesNotExist"})
            f = p.get("statusFilter")
            want = sorted(json.dumps({k: r[k] for k in ("executionArn", "name", "startDate", "stateMachineArn", "status", "stopDate")}, sort_keys=True)
                          for r in E.values() if r["stateMachineArn"] == arn and (f is None or r["status"] == f))
            return ("ok", lambda b: isinstance(b, dict) and sorted(json.dumps(x, sort_keys=True) for x in b.get("executions", [])) == want, None)
        if a == "DescribeStateMachineForExecution":
            earn = p["executionArn"]
            if earn not in E:
                return ("error", {"ExecutionDoesNotExist"})
            arn = E[earn]["stateMachineArn"]
            if arn not in M:
                return ("error", {"StateMachineDoesNotExist"})
            r = M[arn]
            def chk(b):
                try:
                    b = dict(b); b["definition"] = json.loads(b["definition"])
                except Exception:
                    return False
                return b == {k: r[k] for k in ("definition", "name", "roleArn", "stateMachineArn", "updateDate")}
            return ("ok", chk, None)
        raise ValueError(a)

    def canon(self):
        """Store state without dates (ranked)."""
        ms = {k: {kk: vv for kk, vv in v.items() if kk not in ("creationDate", "updateDate")} for k, v in self.machines.items()}
        es = {k: {kk: vv for kk, vv in v.items() if kk not in ("startDate", "stopDate")} for k, v in self.execs.items()}
        return anon(json.dumps([ms, es], sort_keys=True))

# ------------------------------------------------------------------------------------------------------
class Sut(object):
    """The real front end + engine, with snapshot / restore of the three stores."""
    def __init__(self, blocking=False, validate_asl=None):
        from harness.world import World
        from harness.api import ApiClient
        self.w = World({"name": "c10", "machines": {}, "record_sites": False})
        self.api = ApiClient(self.w, blocking=blocking, validate_asl=validate_asl)
        self.eng = self.w.instances[0].engine

    def snapshot(self):
        e = self.eng
        return (copy.deepcopy(e.asl_store.store), copy.deepcopy(dict(e.executions)), copy.deepcopy(dict(e.execution_history)), self.w.clock.now)

    def restore(self, snap):
        e = self.eng
        e.asl_store.store = copy.deepcopy(snap[0]); e.asl_store._update_store()
        e.executions.clear(); e.executions.update(copy.deepcopy(snap[1]))
        e.execution_history.clear(); e.execution_history.update(copy.deepcopy(snap[2]))
        self.w.clock.now = snap[3]

    def dump(self):
        e = self.eng
        ms = {k: {kk: vv for kk, vv in dict(v).items() if kk not in ("creationDate", "updateDate")} for k, v in e.asl_store.items()}
        es = {}
        for k, v in e.executions.items():
            v = dict(v)
            v = {kk: vv for kk, vv in v.items() if kk not in ("startDate", "stopDate")}
            for f in ("input", "output"):
                if isinstance(v.get(f), str):
                    v[f] = json.loads(v[f])
            es[k] = v
        return anon(json.dumps([ms, es], sort_keys=True))

    def full_dump(self):
        e = self.eng
        return json.dumps([{k: dict(v) for k, v in e.asl_store.items()}, {k: dict(v) for k, v in e.executions.items()},
                           {k: list(v) for k, v in e.execution_history.items()}], sort_keys=True, default=repr)

    def call(self, c):
        self.w.clock.now += 1.0
        now = self.w.clock.now
        st, js, text = self.api.call(c["action"], c["params"], raw=bytes.fromhex(c["raw_hex"]) if c.get("raw_hex") is not None else c.get("raw"), content_type=c.get("content_type", "application/x-amz-json-1.0"), target=c.get("target"))
        self.w.run(max_steps=2000)
        return now, st, js, text

def judge(call, exp, st, js, text, before, after):
    """-> None or (class, detail)"""
    if st >= 500:
        return ("internal-error", "HTTP %d %r" % (st, text[:80]))
    if exp[0] == "any4xx":
        if not (400 <= st < 500):
            return ("malformed-request-accepted", "HTTP %d %r" % (st, text[:80]))
        if before != after:
            return ("error-answer-changed-the-store", "HTTP %d but the stores changed" % st)
        return None
    if exp[0] == "error":
        if st != 400 or not isinstance(js, dict) or js.get("__type") not in exp[1]:
            return ("wrong-error", "HTTP %d %r, expected 400 with __type in %s" % (st, text[:120], sorted(exp[1])))
        if before != after:
            return ("error-answer-changed-the-store", "answered %s but the stores changed" % js.get("__type"))
        return None
    if st != 200:
        return ("refused", "HTTP %d %r, expected 200" % (st, text[:120]))
    if not exp[1](js if js is not None else (text.strip() or None)):
        return ("wrong-body", "body %r" % (text[:300],))
    return None

def bfs(tier, blocking=False, shared_only=False, strict=False):
    sut = Sut(blocking=blocking, validate_asl=True if strict else None)
    calls = alphabet(tier)
    if strict:
        calls = [c for c in calls if c["tag"] in STRICT_TAGS]
    if blocking:
        # the blocking front end predates loggingConfiguration: that parameter is not part of what the two front ends share
        calls = [c for c in calls if "log" not in c["tag"] and c["action"] not in ("StartSyncExecution", "SendTaskSuccess", "SendTaskFailure", "SendTaskHeartbeat")]      # (nor the synchronous start and the callbacks)
        for c in calls:
            if isinstance(c["params"], dict) and "loggingConfiguration" in c["params"]:
                c["params"] = {k: v for k, v in c["params"].items() if k != "loggingConfiguration"}
    ref0 = Ref()
    ref0.logging = not blocking
    ref0.strict = strict
    ref0.max_anon = 2 if tier == "quick" else 1      # (the search to the fixed point allows one unnamed execution per store state)
    seen = {ref0.canon(): 0}
    frontier = [(sut.snapshot(), ref0, [])]
    states = transitions = 0
    findings = {}
    max_states = 160 if tier == "quick" else 1500
    depth = 0
    capped = False
    while frontier:
        nxt = []
        for snap, ref, path in frontier:
            states += 1
            for c in calls:
                if c["tag"].startswith(("body-", "noparams-")) and len(path) > 2:
                    continue      # refused before the stores are looked at: issued in every state up to depth 2 only
                lint_call = not strict and ("lintbad" in c["tag"] or "dupkeys" in c["tag"])
                sut.restore(snap)
                before = sut.full_dump()
                r2 = ref.clone()
                exp = r2.expect(c, snap[3] + 1.0)
                if exp[0] == "skip":
                    continue
                now, st, js, text = sut.call(c)
                after = sut.full_dump()
                transitions += 1
                v = judge(c, exp, st, js, text, before, after)
                if v is None and exp[0] == "ok":
                    if exp[2]:
                        exp[2]()
                    if sut.dump() != r2.canon():
                        v = ("store-differs-from-reference", "after %s the stores hold %s, reference %s" % (c["tag"], sut.dump()[:300], r2.canon()[:300]))
                if v is not None:
                    sig = "api|%s|%s" % (v[0], c["tag"])
                    if sig not in findings or len(path) < len(findings[sig][1]):
                        findings[sig] = (v[1], path + [c["tag"]])
                    continue
                k = r2.canon()
                if lint_call:
                    continue      # judged in every state, but the states it leads to (a third definition value) are expanded by the validating search only
                if k not in seen:
                    if len(seen) >= max_states:
                        capped = True
                        continue
                    seen[k] = len(path) + 1
                    nxt.append((sut.snapshot(), r2, path + [c["tag"]]))
        frontier = nxt
        depth += 1
    sut.w.close()
    return {"states": states, "transitions": transitions, "findings": findings, "depth": depth, "capped": capped, "distinct_states": len(seen), "calls": len(calls)}

# ------------------------------------------------------------------------------------------------------
# Two overlapping requests on the asyncio front end: every interleaving of the two handlers at their await points, up to a
# deviation bound, must be answered like one of the two sequential orders (the reference is a map; a handler that suspends
# between its look-up and its write would acknowledge a duplicate or lose an acknowledged write).
OVERLAP = [
    ([], "create-ma", "create-ma-d2"), ([], "create-ma", "create-ma"), ([], "create-ma", "create-mb-express"), ([], "create-ma", "describe-ma"), ([], "create-ma", "list"),
    (["create-ma"], "delete-ma", "delete-ma"), (["create-ma"], "delete-ma", "describe-ma"), (["create-ma"], "delete-ma", "create-ma-d2"),
    (["create-ma"], "update-ma-def", "delete-ma"), 
    (["create-ma"], "start-ma-e1", "start-ma-e2-noinput"), (["create-ma", "start-ma-e1"], "descexec-ma-e1", "delete-ma"), (["create-ma", "start-ma-e1"], "listexec-ma", "start-ma-e2-noinput"),
]

def _run_controlled(loop, coro, choices, widths):
    """Run coro on the (otherwise idle) loop one ready handle at a time; step k runs the choices[k]-th ready handle (default: the first = the loop's own FIFO order)."""
    import threading, heapq
    from asyncio import events
    task = loop.create_task(coro)
    loop._thread_id = threading.get_ident()
    old = events._get_running_loop()
    events._set_running_loop(loop)
    step = 0
    try:
        while not task.done():
            now = loop.time()
            while loop._scheduled and loop._scheduled[0]._when <= now:
                h = heapq.heappop(loop._scheduled); h._scheduled = False
                if not h._cancelled:
                    loop._ready.append(h)
            ready = [h for h in loop._ready if not h._cancelled]
            loop._ready.clear(); loop._ready.extend(ready)
            if not ready:
                if loop._scheduled:
                    continue
                raise RuntimeError("overlap: nothing ready but the requests are not answered")
            i = choices[step] if step < len(choices) else 0
            if i >= len(ready):
                raise RuntimeError("overlap: replay diverged at step %d (%d ready, choice %d)" % (step, len(ready), i))
            widths.append(len(ready))
            h = ready[i]; del loop._ready[i]
            h._run()
            step += 1
            if step > 2000:
                raise RuntimeError("overlap: runaway")
    finally:
        events._set_running_loop(old)
        loop._thread_id = None
    return task.result()

def _overlap_job(args):
    tier, idx = args
    import asyncio
    from harness import world as W
    setup, t1, t2 = OVERLAP[idx]
    calls = {c["tag"]: c for c in alphabet(tier)}
    sut = Sut()
    loop = W._loop
    # work handed to a thread pool completes in a later loop iteration, like a real executor, but deterministically
    def run_in_executor(executor, fn, *a):
        fut = loop.create_future()
        def go():
            try:
                fut.set_result(fn(*a))
            except BaseException as e:
                fut.set_exception(e)
        loop.call_soon(go)
        return fut
    loop.run_in_executor = run_in_executor
    ref = Ref()
    for tag in setup:
        c = calls[tag]
        exp = ref.expect(c, sut.w.clock.now + 1.0)
        sut.call(c)
        if exp[0] == "ok" and exp[2]:
            exp[2]()
    snap = sut.snapshot()
    now = snap[3] + 1.0
    c1, c2 = calls[t1], calls[t2]
    # the two sequential orders according to the reference
    allowed = []
    for order in ((0, 1), (1, 0)):
        r = ref.clone()
        exps = [None, None]
        for k in order:
            c = (c1, c2)[k]
            exps[k] = r.clone().expect(c, now)      # its answer checker stays bound to the store as it was before this call
            e = r.expect(c, now)
            if e[0] == "ok" and e[2]:
                e[2]()
        allowed.append((exps, r.canon()))
    async def one(c):
        headers = {"Content-Type": "application/x-amz-json-1.0", "x-amz-target": "AWSStepFunctions." + c["action"]}
        r = await sut.api.client.post("/", data=json.dumps(c["params"]), headers=headers)
        return r.status_code, await r.get_data(as_text=True)
    async def both():
        return await asyncio.gather(one(c1), one(c2))
    bound = 1 if tier == "quick" else 2
    stack = [((), 0)]
    runs = 0
    finding = None
    outcomes = set()
    while stack:
        choices, cost = stack.pop()
        sut.restore(snap)
        sut.w.clock.now = now
        widths = []
        res = _run_controlled(loop, both(), list(choices), widths)
        sut.w.run(max_steps=2000)
        runs += 1
        got = []
        for st, text in res:
            try:
                js = json.loads(text)
            except ValueError:
                js = None
            got.append((st, js, text))
        dump = sut.dump()
        ok = False
        for exps, canon in allowed:
            good = True
            for k in (0, 1):
                st, js, text = got[k]
                e = exps[k]
                if e[0] == "error":
                    good = good and st == 400 and isinstance(js, dict) and js.get("__type") in e[1]
                else:
                    good = good and st == 200 and e[1](js if js is not None else (text.strip() or None))
            if good and dump == canon:
                ok = True
        outcomes.add(json.dumps([[g[0], (g[1] or {}).get("__type") if isinstance(g[1], dict) else None] for g in got]))
        if not ok and (finding is None or len(choices) < len(finding[1])):
            finding = ("%s || %s answered %s / %s and left %s: not the result of either sequential order" % (t1, t2, got[0][2][:90].strip(), got[1][2][:90].strip(), dump[:200]), list(choices))
        for k in range(len(choices), len(widths)):
            if cost + 1 <= bound:
                for alt in range(1, widths[k]):
                    stack.append((tuple(choices) + (0,) * (k - len(choices)) + (alt,), cost + 1))
    sut.w.close()
    return {"pair": [setup, t1, t2], "runs": runs, "finding": finding, "outcomes": len(outcomes), "bound": bound}

def run(tier, seed):
    cr = common.CheckResult(PROP)
    ctx = multiprocessing.get_context("fork")
    # (the blocking front end has no validate_asl option: the validating configuration exists for the asyncio one only)
    with ctx.Pool(3) as pool:
        ra, rb, sa = pool.map(_bfs_job, [(tier, False), (tier, True), (tier, False, True)])
    with ctx.Pool(common.JOBS) as pool:
        ov = pool.map(_overlap_job, [(tier, i) for i in range(len(OVERLAP))], chunksize=1)
    for o in ov:
        if o["finding"]:
            sig = "api|overlap-not-serializable|%s+%s|asyncio" % (o["pair"][1], o["pair"][2])
            cr.add(sig, "asyncio front end, after %s: %s (interleaving %s)" % (" -> ".join(o["pair"][0]) or "(empty store)", o["finding"][0], o["finding"][1]),
                   {"kind": "overlap", "property": PROP, "signature": sig, "pair_index": OVERLAP.index(tuple(o["pair"])) if tuple(o["pair"]) in OVERLAP else [list(x) for x in OVERLAP].index(o["pair"]),
                    "choices": o["finding"][1]}, size=len(o["finding"][1]))
    for front, r in (("asyncio", ra), ("blocking", rb), ("asyncio+validate_asl", sa)):
        for sig, (detail, path) in r["findings"].items():
            s2 = sig + "|" + front
            cr.add(s2, "%s front end, after %s: %s" % (front, " -> ".join(path[:-1]) or "(empty store)", detail),
                   {"kind": "api", "property": PROP, "signature": s2, "front": front, "path": path}, size=len(path))
    cr.coverage = {
        "states": ra["states"] + rb["states"] + sa["states"], "transitions": ra["transitions"] + rb["transitions"] + sa["transitions"],
        "traces_validated_against_impl": ra["transitions"] + rb["transitions"] + sa["transitions"],
        "validate_asl_on": {"asyncio": {"states": sa["distinct_states"], "calls": sa["calls"]}},
        "samples": [{"path": ["create-ma", "start-ma-e1", "update-ma-role-baddef"]}, {"path": ["create-mb-express", "start-mb-e1", "descexec-mb-e1"]}],
        "distinct_store_states": {"asyncio": ra["distinct_states"], "blocking": rb["distinct_states"]}, "bfs_depth": {"asyncio": ra["depth"], "blocking": rb["depth"]},
        "alphabet_size": ra["calls"], "capped": [x for x in (("asyncio" if ra["capped"] else None), ("blocking" if rb["capped"] else None)) if x],
        "exhaustive": not (ra["capped"] or rb["capped"]),
        "overlapping_request_pairs": len(ov), "overlap_interleavings_run": sum(o["runs"] for o in ov), "overlap_deviation_bound": ov[0]["bound"] if ov else None,
        "overlap_pairs_with_more_than_one_outcome": sum(1 for o in ov if o["outcomes"] > 1),
        "explanation": "breadth-first search from the empty store: in every reachable store state (canonical form = stored records without dates) every call of the alphabet is issued to the real "
                       "Quart (asyncio) and Flask (blocking) front ends backed by the real engine on the simulated broker (a StartExecution is run to quiescence); status, __type and body are "
                       "compared with a two-map reference, the stores are compared before/after every error answer and with the reference after every success; plus pairs of overlapping requests on the asyncio "
                       "front end: the two handlers are stepped one ready loop callback at a time, every interleaving within the deviation bound from the loop's own order, answers and stores must equal one of the two sequential orders",
    }
    cr.assumptions = ["reference Ref in checks/c10.py (two maps + the documented error table; where AWS documents several plausible error types for a malformed field any of them is accepted)",
                      "Quart / Flask test clients stand in for HTTP"] + common.ASSUME_SIM[:1]
    return cr

def _bfs_job(args):
    return bfs(args[0], blocking=args[1], strict=len(args) > 2 and args[2])

def replay(rp):
    if rp.get("kind") == "overlap":
        o = _overlap_job(("thorough", rp["pair_index"]))
        print(("REPRODUCED property=C10 %r" % (o["finding"],)) if o["finding"] else "not reproduced")
        return 1 if o["finding"] else 0
    strict = rp["front"].endswith("+validate_asl")
    sut = Sut(blocking=rp["front"].startswith("blocking"), validate_asl=True if strict else None)
    calls = {c["tag"]: c for c in alphabet("quick")}
    ref = Ref()
    ref.strict = strict
    ref.logging = not rp["front"].startswith("blocking")
    bad = None
    for i, tag in enumerate(rp["path"]):
        c = calls[tag]
        before = sut.full_dump()
        exp = ref.expect(c, sut.w.clock.now + 1.0)
        if exp[0] == "skip":
            continue
        now, st, js, text = sut.call(c)
        v = judge(c, exp, st, js, text, before, sut.full_dump())
        if v is None and exp[0] == "ok":
            if exp[2]:
                exp[2]()
            if sut.dump() != ref.canon():
                v = ("store-differs-from-reference", "")
        if i == len(rp["path"]) - 1:
            bad = v
    print(("REPRODUCED property=C10 %r" % (bad,)) if bad else "not reproduced")
    return 1 if bad else 0
