"""C14 - Choice rules compare by type and combine like Boolean logic (exhaustive enumeration through one-Choice machines)."""
import json, itertools, multiprocessing
from . import common
from ref import choice as RC, jsonpath as JP

PROP = "C14"
TS = ["2030-03-17T17:46:40Z", "2030-03-17T23:16:40+05:30", "2030-03-17T14:01:41-03:45"]   # first two are the same instant
MISSING = "__missing__"
VALUES = [MISSING, None, 0, 1, 1.5, 0.0, 1.0, True, False, "", "a", "A", "a*c", "abc", "a?c", "a\\c", "a]c", "hello world", "2030-03-17", TS[0], TS[1], TS[2], [], {}]
PATTERNS = ["a*c", "a?c", "a\\*c", "*", "", "a[bc]c", "a.c", "ab*", "*c", "a\\\\c", "a]c"]

def base_cases(tier):
    """(rule, input) pairs: all 39 operators x variable values x constants."""
    out = []
    consts = [c for c in VALUES if c is not MISSING]
    for op in RC.OPERATORS:
        if op.endswith("Path"):
            for v in VALUES:
                for c in consts:
                    inp = {"w": c}
                    if v is not MISSING:
                        inp["v"] = v
                    out.append(({"Variable": "$.v", op: "$.w"}, inp))
        elif op.startswith("Is"):
            for v in VALUES:
                for c in (True, False):
                    out.append(({"Variable": "$.v", op: c}, {} if v is MISSING else {"v": v}))
        elif op == "StringMatches":
            for v in VALUES:
                for c in PATTERNS:
                    out.append(({"Variable": "$.v", op: c}, {} if v is MISSING else {"v": v}))
        else:
            for v in VALUES:
                for c in consts:
                    out.append(({"Variable": "$.v", op: c}, {} if v is MISSING else {"v": v}))
    return out

def machines(tier):
    """(definition, input, tag) triples."""
    out = []
    mk = lambda s: {"Type": "Pass", "Result": s, "End": True}
    for r, inp in base_cases(tier):
        d = {"StartAt": "C", "States": {"C": {"Type": "Choice", "Choices": [dict(r, Next="M1")], "Default": "D"}, "M1": mk("M1"), "D": mk("D")}}
        out.append((d, inp, "op"))
    # Boolean trees over three atomic rules, all truth assignments realised by inputs
    atoms = [{"Variable": "$.p", "BooleanEquals": True}, {"Variable": "$.q", "NumericEquals": 1}, {"Variable": "$.r", "StringEquals": "y"}]
    def trees(depth):
        if depth == 0:
            return list(atoms)
        sub = trees(depth - 1)
        res = list(sub)
        small = sub if depth == 1 else sub[:8]
        for a in small:
            res.append({"Not": a})
        for a, b in itertools.product(small, repeat=2):
            res.append({"And": [a, b]}); res.append({"Or": [a, b]})
        return res
    depth = 2 if tier == "quick" else 3
    ts = trees(depth)
    if tier == "quick":
        ts = ts[:400]
    for t in ts:
        for p, q, r in itertools.product([True, False], [1, 2], ["y", "n"]):
            d = {"StartAt": "C", "States": {"C": {"Type": "Choice", "Choices": [dict(t, Next="M1")], "Default": "D"}, "M1": mk("M1"), "D": mk("D")}}
            out.append((d, {"p": p, "q": q, "r": r}, "tree"))
    # rule order: up to 3 overlapping rules in every order, with and without Default
    rules = [{"Variable": "$.n", "NumericGreaterThan": 0, "Next": "M1"}, {"Variable": "$.n", "NumericGreaterThan": 1, "Next": "M2"},
             {"Variable": "$.n", "NumericLessThan": 5, "Next": "M3"}]
    for k in (1, 2, 3):
        for perm in itertools.permutations(rules, k):
            for default in (True, False):
                for n in (-1, 0, 1, 2, 9, "x"):
                    st = {"Type": "Choice", "Choices": list(perm)}
                    if default:
                        st["Default"] = "D"
                    d = {"StartAt": "C", "States": {"C": st, "M1": mk("M1"), "M2": mk("M2"), "M3": mk("M3"), "D": mk("D")}}
                    out.append((d, {"n": n}, "order"))
    # the same Variable looked at more than once in one evaluation (by a later rule, or by a later leaf of a tree), for a Variable of
    # every type and a missing one: what the first look found must not colour the second
    leaves = [{"BooleanEquals": True}, {"BooleanEquals": False}, {"IsPresent": True}, {"IsPresent": False}, {"StringEquals": "s"}, {"NumericEquals": 0},
              {"IsNull": True}, {"StringMatches": "*"}]
    MISSING = object()
    for l1, l2 in itertools.permutations(leaves, 2):
        for v in (MISSING, True, False, 0, "s", None):
            inp = {} if v is MISSING else {"v": v}
            r1, r2 = dict(l1, Variable="$.v"), dict(l2, Variable="$.v")
            forms = [[dict(r1, Next="M1"), dict(r2, Next="M2")], [{"Or": [r1, r2], "Next": "M1"}], [{"And": [{"Not": r1}, r2], "Next": "M1"}]]
            for ch in forms:
                for default in ((True, False) if len(ch) == 2 else (True,)):
                    st = {"Type": "Choice", "Choices": ch}
                    if default:
                        st["Default"] = "D"
                    d = {"StartAt": "C", "States": {"C": st, "M1": mk("M1"), "M2": mk("M2"), "D": mk("D")}}
                    out.append((d, inp, "revisit"))
    # one engine process evaluates many Choice states one after the other: what an earlier execution looked at (a missing Variable, false,
    # 0.0, true, 1.0 - values that compare or hash alike in Python) must not colour a later one.  Run as ONE batch, in this order and reversed.
    order = [MISSING, 0.0, False, 0, 1.0, True, 1, None, "", "0"]
    seq = []
    for vs in (order, order[::-1]):
        for v in vs:
            for r in ({"Variable": "$.v", "NumericLessThanEquals": 0}, {"Variable": "$.v", "IsNumeric": True}, {"Variable": "$.v", "NumericEquals": 1},
                      {"Variable": "$.v", "BooleanEquals": True}, {"Variable": "$.v", "IsBoolean": True}, {"Variable": "$.v", "NumericEqualsPath": "$.w"}):
                d = {"StartAt": "C", "States": {"C": {"Type": "Choice", "Choices": [dict(r, Next="M1")], "Default": "D"}, "M1": mk("M1"), "D": mk("D")}}
                seq.append((d, dict({} if v is MISSING else {"v": v}, w=1), "sequence"))
    out += seq
    # Variable and *Path operands that point into the Context Object ($$): resolved against the context, not against the input
    for v in ("e", "x", 1, 2, True):
        inp = {"v": v, "n": 1, "Execution": {"Name": "decoy"}}
        rules = [{"Variable": "$.v", "StringEqualsPath": "$$.Execution.Name"}, {"Variable": "$$.Execution.Name", "StringEquals": v if isinstance(v, str) else "e"},
                 {"Variable": "$.v", "NumericEqualsPath": "$$.Execution.Input.n"}, {"Variable": "$$.Execution.Input.v", "NumericGreaterThanPath": "$.n"},
                 {"Variable": "$$.State.Name", "StringEqualsPath": "$.v"}, {"Variable": "$.v", "StringGreaterThanPath": "$$.State.Name"}]
        for r0 in rules:
            for r in (r0, {"Not": r0}):
                d = {"StartAt": "C", "States": {"C": {"Type": "Choice", "Choices": [dict(r, Next="M1")], "Default": "D"}, "M1": mk("M1"), "D": mk("D")}}
                out.append((d, inp, "context"))
    # InputPath != '$' (the *Path operand and the Variable are relative to the effective input), OutputPath
    for v, w in itertools.product([0, 1, "a"], repeat=2):
        for op in ("NumericEqualsPath", "StringEqualsPath"):
            st = {"Type": "Choice", "InputPath": "$.in", "Choices": [{"Variable": "$.v", op: "$.w", "Next": "M1"}], "Default": "D"}
            d = {"StartAt": "C", "States": {"C": st, "M1": mk("M1"), "D": mk("D")}}
            out.append((d, {"in": {"v": v, "w": w}, "w": v, "v": "zz"}, "inputpath"))
    for n in (1, 2):
        st = {"Type": "Choice", "InputPath": "$.in", "OutputPath": "$.o", "Choices": [{"Variable": "$.n", "NumericEquals": 1, "Next": "E1"}], "Default": "E2"}
        d = {"StartAt": "C", "States": {"C": st, "E1": {"Type": "Pass", "End": True}, "E2": {"Type": "Pass", "Parameters": {"d.$": "$"}, "End": True}}}
        out.append((d, {"in": {"n": n, "o": {"k": n}}}, "outputpath"))
    return out

def expected(d, inp):
    st = d["States"]["C"]
    try:
        eff = JP.get(inp, st.get("InputPath", "$"))
        nxt = RC.choose(st, eff, {"Execution": {"Name": "e", "Input": inp}, "State": {"Name": "C"}})
    except RC.NoChoiceMatched:
        return ("FAILED", "States.NoChoiceMatched")
    except RC.Ambiguous:
        return None
    tgt = d["States"][nxt]
    if "Result" in tgt:
        return ("SUCCEEDED", tgt["Result"])
    out = JP.get(eff, st.get("OutputPath", "$"))
    if "Parameters" in tgt:
        out = {"d": out}
    return ("SUCCEEDED", out)

def _batch(args):
    tier, lo, hi = args
    from harness.world import World, exec_arn
    ms = machines(tier)[lo:hi]
    sc = {"name": "c14-batch", "machines": {}, "starts": [], "record_sites": False}
    for i, (d, inp, tag) in enumerate(ms):
        sc["machines"]["m%d" % i] = {"definition": d}
        sc["starts"].append({"machine": "m%d" % i, "name": "e", "input": inp, "after_idle": True})
    w = World(sc)
    w.run(max_steps=100000)
    got = {}
    for n in w.notes:
        det = n["body"]["detail"]
        if det["status"] != "RUNNING":
            got[det["executionArn"]] = (det["status"], json.loads(det["output"]) if det.get("output") is not None else det.get("error"))
    w.close()
    res = []
    for i, (d, inp, tag) in enumerate(ms):
        res.append(got.get(exec_arn("m%d" % i, "e")))
    return res

def defect_model(d, inp):
    """Exact predictions of known-wrong behaviours: returns list of (class, predicted)."""
    out = []
    st = d["States"]["C"]
    return out

def run(tier, seed):
    cr = common.CheckResult(PROP)
    ms = machines(tier)
    n = len(ms)
    step = 250
    # the "sequence" family is one contiguous block and must run in one engine process, in order: its own chunk
    seq_idx = [i for i, m in enumerate(ms) if m[2] == "sequence"]
    cuts = sorted(set(list(range(0, n, step)) + ([seq_idx[0], seq_idx[-1] + 1] if seq_idx else []) + [n]))
    chunks = [(tier, lo, hi) for lo, hi in zip(cuts, cuts[1:]) if not (seq_idx and seq_idx[0] < lo < seq_idx[-1] + 1) or True]
    chunks = []
    lo = 0
    for c in cuts[1:]:
        if seq_idx and seq_idx[0] < c <= seq_idx[-1] and c != seq_idx[-1] + 1:
            continue          # no cut inside the sequence block
        chunks.append((tier, lo, c)); lo = c
    ctx = multiprocessing.get_context("fork")
    with ctx.Pool(common.JOBS) as pool:
        outs = pool.map(_batch, chunks, chunksize=1)
    got = [g for o in outs for g in o]
    judged = 0
    skipped = 0
    distinct = set()
    tags = {}
    for (d, inp, tag), g in zip(ms, got):
        want = expected(d, inp)
        if want is None:
            skipped += 1
            continue
        judged += 1
        tags[tag] = tags.get(tag, 0) + 1
        distinct.add(json.dumps([d["States"]["C"], inp], sort_keys=True))
        gj = list(g) if g else None
        if gj is not None and json.dumps(gj, sort_keys=True) == json.dumps(list(want), sort_keys=True):
            continue
        r = d["States"]["C"]["Choices"][0]
        op = [k for k in r if k in RC.OPERATORS]
        cls = "%s|%s" % (tag, op[0] if (op and tag == "op") else "-")
        sig = "choice|" + cls
        cr.add(sig, "Choice %s on input %s -> %r, expected %r" % (json.dumps(d["States"]["C"]), json.dumps(inp), g, want),
               {"kind": "choice", "property": PROP, "signature": sig, "definition": d, "input": inp, "want": list(want)},
               size=len(json.dumps(d)) + len(json.dumps(inp)))
    cr.coverage = {
        "evaluations": n, "distinct_nontrivial": len(distinct),
        "rule": "one-Choice machines run through the real engine on the simulated broker (canonical schedule): all 39 operators x %d variable values "
                "(incl. missing) x constants of every type / *Path operands; And/Or/Not trees to depth %d over 3 atoms x all 8 truth assignments; all orderings of <= 3 "
                "overlapping rules x Default present/absent; every ordered pair of 8 comparators on one Variable (missing, and of every type) as two rules, as Or and as And/Not; InputPath/OutputPath variants. Judged = cases the statement determines (type tests on a missing "
                "Variable and *Path operands that match nothing are not judged). distinct = distinct (state, input) pairs judged" % (len(VALUES), 2 if tier == "quick" else 3),
        "judged": judged, "not_judged_ambiguous": skipped, "by_family": tags,
        "samples": [{"state": ms[0][0]["States"]["C"], "input": ms[0][1]}, {"state": ms[-1][0]["States"]["C"], "input": ms[-1][1]}],
        "exhaustive": True,
    }
    cr.assumptions = ["reference ref/choice.py + ref/rfc3339.py + ref/jsonpath.py"] + common.ASSUME_SIM[:1]
    return cr

def replay(rp):
    from harness.world import World, exec_arn
    sc = {"name": "c14-replay", "machines": {"m0": {"definition": rp["definition"]}}, "starts": [{"machine": "m0", "name": "e", "input": rp["input"]}]}
    w = World(sc); w.run()
    got = None
    for n in w.notes:
        det = n["body"]["detail"]
        if det["status"] != "RUNNING":
            got = [det["status"], json.loads(det["output"]) if det.get("output") is not None else det.get("error")]
    bad = json.dumps(got, sort_keys=True) != json.dumps(rp["want"], sort_keys=True)
    print(("REPRODUCED property=C14" if bad else "not reproduced") + ": got %r expected %r" % (got, rp["want"]))
    return 1 if bad else 0
