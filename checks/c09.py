"""C09 - execution history is a gap-free, ordered, faithful log (checked on the complete history after every step)."""
from . import common
from harness import corpus
PROP = "C09"
MONITORS = ("M-hist",)
def scenarios(tier):
    # (the history lives in the memory of the instance with the default store: scenarios with a scripted crash are not history scenarios)
    return corpus.handler_coverage_corpus() + corpus.seq_family(tier) + corpus.fanout_ok_family(tier) + corpus.fanout_fail_family(tier) + corpus.bystander_family(tier) + corpus.observability_family(tier) + [s for s in corpus.child_family(tier) if not any(st.get("op") == "crash_restart" for st in s.get("script") or [])] + corpus.history_api_family(tier)
def run(tier, seed):
    return common.engine_check(PROP, scenarios(tier), MONITORS, tier, seed)
