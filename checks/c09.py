"""C09 - execution history is a gap-free, ordered, faithful log (checked on the complete history after every step)."""
from . import common
from harness import corpus
PROP = "C09"
MONITORS = ("M-hist",)
def scenarios(tier):
    return corpus.handler_coverage_corpus() + corpus.seq_family(tier) + corpus.fanout_ok_family(tier) + corpus.fanout_fail_family(tier) + corpus.bystander_family(tier) + corpus.observability_family(tier) + corpus.child_family(tier) + corpus.history_api_family(tier)
def run(tier, seed):
    return common.engine_check(PROP, scenarios(tier), MONITORS, tier, seed)
