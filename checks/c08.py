"""C08 - waits and timeouts fire at the right instant, never early; RFC 3339 timestamps denote their true instant."""
import time, json
from fractions import Fraction
from . import common
from ref import rfc3339

PROP = "C08"
BASES = [1900000000, 1900003600 + 59]   # two instants; the second one has non-zero seconds

def parse_cases(tier):
    """(string, exact instant) over every UTC offset at minute granularity x fraction forms x Z forms."""
    out = []
    fracs = [(0, 0), (1, Fraction(5, 10)), (3, Fraction(125, 1000)), (6, Fraction(250001, 1000000))]
    for base in BASES:
        for off in range(-1439, 1440):
            for digits, fr in fracs:
                t = Fraction(base) + fr
                out.append((rfc3339.fmt(t, off, digits), t))
        for digits, fr in fracs:
            t = Fraction(base) + fr
            out.append((rfc3339.fmt(t, None, digits), t))
            out.append((rfc3339.fmt(t, 0, digits).replace("+00:00", "-00:00"), t))
        # fractions longer than microseconds are legal RFC 3339
        for off in (None, 0, 330, -225, 1439, -1439):
            for digits in (7, 9, 12):
                t = Fraction(base) + Fraction(123456789012, 10 ** 12)
                s = rfc3339.fmt(t, off, digits)
                out.append((s, rfc3339.parse(s)))
    return out

def eval_parse(s):
    from harness import world
    world.install()
    from asl_workflow_engine.state_engine import parse_rfc3339_datetime
    try:
        return ("ok", parse_rfc3339_datetime(s).timestamp())
    except Exception as e:
        return ("raise", type(e).__name__)

def classify_parse(s, want, got):
    if got[0] == "raise":
        return "parse-raises-%s" % got[1]
    return "parse-wrong-instant"

def run(tier, seed):
    cr = common.CheckResult(PROP)
    cases = parse_cases(tier)
    n = 0
    distinct = set()
    samples = []
    for s, want in cases:
        got = eval_parse(s)
        n += 1
        distinct.add(s[19:])   # fraction + offset notation
        if got[0] == "ok" and abs(Fraction(got[1]) - want) <= Fraction(1, 10 ** 6):
            if len(samples) < 3 and n % 5000 == 1:
                samples.append({"timestamp": s, "instant": float(want)})
            continue
        cls = classify_parse(s, want, got)
        off = s[-6:] if s[-1] != "Z" else "Z"
        sig = "parse|%s" % cls
        cr.add(sig, "%s parsed as %r, true instant %s" % (s, got, float(want)),
               {"kind": "parse", "property": PROP, "signature": sig, "input": s, "want": float(want), "got": list(got)}, size=len(s))
    cr.coverage = {
        "evaluations": n, "distinct_nontrivial": len(distinct),
        "rule": "every UTC offset -23:59..+23:59 at minute granularity x {0,1,3,6} fraction digits x 2 base instants, Z / +00:00 / -00:00 forms, "
                "7/9/12-digit fractions; distinct = distinct (fraction, offset) notations; oracle = exact rational instant from a strict RFC 3339 grammar",
        "samples": samples or [{"timestamp": cases[0][0], "instant": float(cases[0][1])}],
        "exhaustive": True,
    }
    cr.assumptions = ["reference ref/rfc3339.py (strict grammar, exact rational arithmetic)"]
    return cr

def replay(rp):
    if rp["kind"] == "parse":
        got = eval_parse(rp["input"])
        ok = got[0] == "ok" and abs(got[1] - rp["want"]) <= 1e-6
        print(("not reproduced" if ok else "REPRODUCED property=C08") + ": %s -> %r (true instant %s)" % (rp["input"], got, rp["want"]))
        return 0 if ok else 1
    return 2
