"""C08 - waits and timeouts fire at the right instant, never early; RFC 3339 timestamps denote their true instant."""
import time, json
from fractions import Fraction
from . import common
from ref import rfc3339

PROP = "C08"
BASES = [1900000000, 1900003600 + 59]   # two instants; the second one has non-zero seconds

def parse_cases(tier):
    """(string, exact instant) over every UTC offset at minute granularity x fraction forms x Z forms."""
    out = []
    fracs = [(0, 0), (1, Fraction(5, 10)), (3, Fraction(125, 1000)), (6, Fraction(250001, 1000000))]
    for base in BASES:
        for off in range(-1439, 1440):
            for digits, fr in fracs:
                t = Fraction(base) + fr
                out.append((rfc3339.fmt(t, off, digits), t))
        for digits, fr in fracs:
            t = Fraction(base) + fr
            out.append((rfc3339.fmt(t, None, digits), t))
            out.append((rfc3339.fmt(t, 0, digits).replace("+00:00", "-00:00"), t))
        # fractions longer than microseconds are legal RFC 3339
        for off in (None, 0, 330, -225, 1439, -1439):
            for digits in (7, 9, 12):
                t = Fraction(base) + Fraction(123456789012, 10 ** 12)
                s = rfc3339.fmt(t, off, digits)
                out.append((s, rfc3339.parse(s)))
    return out

def eval_parse(s):
    from harness import world
    world.install()
    from asl_workflow_engine.state_engine import parse_rfc3339_datetime
    try:
        return ("ok", parse_rfc3339_datetime(s).timestamp())
    except Exception as e:
        return ("raise", type(e).__name__)

def classify_parse(s, want, got):
    if got[0] == "raise":
        return "parse-raises-%s" % got[1]
    return "parse-wrong-instant"

EPOCH = 1900000000

def timing_scenarios(tier):
    import copy
    from harness.corpus import chain, Task, Pass, Wait, Parallel, Map, scenario, multi, OK, ERR, NONE
    out = []
    Z = ("Z", Pass())
    other = chain(("OW", Wait(3)), ("OZ", Pass()))
    def two(name, d, inp=None, workers=None, budget=2, other_wait=None, **kw):
        oth = other if other_wait is None else chain(("OW", Wait(other_wait)), ("OZ", Pass()))
        sc = multi(name, {"m": {"definition": d}, "o": {"definition": oth}},
                   [{"machine": "m", "name": "e1", "input": {} if inp is None else inp}, {"machine": "o", "name": "e2", "input": {}}],
                   workers=workers or {}, family=name, schedule="timed", delay_budget=budget, **kw)
        out.append(sc)
    for n in (0, 1, 5):
        two("wait-seconds-%d" % n, chain(("A", Pass()), ("W", Wait(n)), Z))
    two("wait-secondspath", chain(("W", Wait(SecondsPath="$.s")), Z), inp={"s": 2})
    from ref import rfc3339
    for nm, off, tzo in (("past", -5, None), ("now", 0, 330), ("future", 4, -225), ("future-frac", 2.5, 0)):
        ts = rfc3339.fmt(EPOCH + off, tzo, 3 if isinstance(off, float) else 0)
        two("wait-timestamp-" + nm, chain(("W", Wait(Timestamp=ts)), Z))
    two("wait-timestamppath", chain(("W", Wait(TimestampPath="$.t", InputPath="$.in")), Z), inp={"in": {"t": rfc3339.fmt(EPOCH + 4, 330)}})
    # Task time-out versus a slow worker: reply before / at / after the deadline, every order of reply and timer
    for hname, h in (("plain", {}), ("catch", {"Catch": [{"ErrorEquals": ["States.Timeout"], "Next": "Z", "ResultPath": "$.e"}]}),
                     ("retry", {"Retry": [{"ErrorEquals": ["States.Timeout"], "IntervalSeconds": 1, "MaxAttempts": 1}]})):
        d = chain(("T", Task("f1", TimeoutSeconds=3, **h)), Z)
        two("task-timeout-slow-worker-" + hname, d, workers={"f1": {"*": [["delay", ["ok", {"r": 1}]]]}})
        two("task-timeout-never-" + hname, d, workers={"f1": {"*": NONE}}, budget=1)
    # the same with the number of seconds taken from the input (TimeoutSecondsPath)
    dp = chain(("T", Task("f1", TimeoutSecondsPath="$.limits.t")), Z)
    two("task-timeoutpath-slow-worker", dp, inp={"limits": {"t": 3}}, workers={"f1": {"*": [["delay", ["ok", {"r": 1}]]]}})
    two("task-timeoutpath-never", dp, inp={"limits": {"t": 3}}, workers={"f1": {"*": NONE}}, budget=1)
    # a waitForTaskToken task whose worker answers the request itself (that answer is ignored) and whose callback never comes
    dtok = chain(("T", {"Type": "Task", "Resource": "arn:aws:states:local::rpcmessage:invoke.waitForTaskToken", "TimeoutSeconds": 3,
                        "Parameters": {"FunctionName": "arn:aws:rpcmessage:local::function:f1", "Payload": {"token.$": "$$.Task.Token"}}}), Z)
    two("task-token-timeout-after-ignored-reply", dtok, workers={"f1": {"*": [["delay", ["ok", {"ignored": True}]]]}})
    # a Task retried with a growing back-off: every attempt measures its TimeoutSeconds from its own (delayed) dispatch instant
    d = chain(("T", Task("f1", TimeoutSeconds=4, Retry=[{"ErrorEquals": ["E1"], "IntervalSeconds": 2, "BackoffRate": 2.0, "MaxAttempts": 3}])), Z)
    two("task-timeout-after-backoff-retries", d, workers={"f1": {"*": [["err", "E1", "x"], ["err", "E1", "x"], ["delay", ["ok", {"r": 3}]]]}}, budget=1)
    two("task-timeout-after-backoff-retries-never", d, workers={"f1": {"*": [["err", "E1", "x"], ["err", "E1", "x"], ["none"]]}}, budget=1)
    # execution time-out inside a Task / Wait / fan-out, with handlers that must not intercept it
    ALL = {"Retry": [{"ErrorEquals": ["States.ALL"], "IntervalSeconds": 1, "MaxAttempts": 2}], "Catch": [{"ErrorEquals": ["States.ALL"], "Next": "Z", "ResultPath": "$.caught"}]}
    d = chain(("T", Task("f1", **ALL)), Z); d["TimeoutSeconds"] = 6
    two("exec-timeout-in-task", d, workers={"f1": {"*": NONE}}, budget=1)
    d = chain(("T", Task("f1", TimeoutSeconds=20, **ALL)), Z); d["TimeoutSeconds"] = 4
    two("exec-timeout-before-task-timeout", d, workers={"f1": {"*": NONE}}, budget=1)
    d = chain(("W", Wait(10)), Z); d["TimeoutSeconds"] = 4
    two("exec-timeout-in-wait", d, budget=1)
    # the Task's own deadline and the execution deadline are the same instant (a start-state Task with the machine's TimeoutSeconds; a
    # late Task event for which both have passed): it is the execution that has run out of time, and that cannot be intercepted
    # (with a catcher only: a retrier would re-enter the Task, whose second attempt then meets the execution deadline anyway)
    CATCH_ONLY = {"Catch": ALL["Catch"]}
    d = chain(("T", Task("f1", TimeoutSeconds=4, **CATCH_ONLY)), Z); d["TimeoutSeconds"] = 4
    two("exec-timeout-equals-task-timeout", d, workers={"f1": {"*": NONE}}, budget=1)
    d = chain(("A", Pass()), ("T", Task("f1", TimeoutSeconds=2, **CATCH_ONLY)), Z); d["TimeoutSeconds"] = 4
    two("exec-timeout-late-task-event-both-passed", d, workers={"f1": {"*": NONE}}, budget=2, other_wait=6)
    # the Task (Wait) event itself is delivered after the execution deadline (backlog): still an uninterceptable execution time-out
    d = chain(("A", Pass()), ("T", Task("f1", TimeoutSeconds=20, **ALL)), Z); d["TimeoutSeconds"] = 4
    two("exec-timeout-late-task-event", d, workers={"f1": {"*": NONE}}, budget=2, other_wait=6)
    d = chain(("A", Pass()), ("W", Wait(1)), Z); d["TimeoutSeconds"] = 4
    two("exec-timeout-late-wait-event", d, budget=2, other_wait=6)
    d = chain(("P", Parallel([chain(("A1", Task("fa"))), chain(("B1", Wait(30)))], **ALL)), Z); d["TimeoutSeconds"] = 5
    two("exec-timeout-in-parallel", d, workers={"fa": {"*": NONE}}, budget=1)
    d = chain(("A", Pass()), ("T", Task("f1")), Z); d["TimeoutSeconds"] = 5
    two("exec-timeout-not-reached", d, workers={"f1": {"*": OK(1)}})
    # waits and task time-outs inside fan-outs: every iteration / branch measures from its own entry, also in later MaxConcurrency batches
    two("map-mc1-wait-items", chain(("M", Map(chain(("I", Wait(SecondsPath="$"))), MaxConcurrency=1)), Z), inp=[2, 2, 1], budget=1)
    two("map-mc1-task-timeout-items", chain(("M", Map(chain(("I", Task("fi", TimeoutSeconds=4))), MaxConcurrency=1)), Z), inp=[1, 2],
        workers={"fi": {"1": [["delay", ["ok", 1]]], "*": NONE}}, budget=1)
    two("parallel-wait-after-task", chain(("P", Parallel([chain(("A1", Task("fa")), ("A2", Wait(2))), chain(("B1", Wait(1)), ("B2", Task("fb", TimeoutSeconds=3)))])), Z),
        workers={"fa": {"*": [["delay", ["ok", "a"]]]}, "fb": {"*": NONE}}, budget=1, prompt_only=True)
    # the same under a local time zone with a non-zero minute offset (every timestamp the engine writes carries +05:30)
    base = [s for s in out if s["name"] in ("wait-seconds-1", "wait-timestamp-future", "task-timeout-slow-worker-plain", "exec-timeout-in-wait", "exec-timeout-in-task")]
    for s0 in base:
        s1 = copy.deepcopy(s0); s1["name"] += "@IST"; s1["family"] += "@IST"; s1["tz"] = "IST-5:30"
        out.append(s1)
    return out

def run_timing(cr, tier, seed):
    import copy
    from . import c04
    scs = timing_scenarios(tier)
    jobs = []
    by_name = {}
    mons = ["M-time", "M-ref", "M-life"]
    limits = {"max_states": 40000 if tier == "quick" else 400000, "max_depth": 400, "only": mons}
    for sc in list(scs):
        if tier == "thorough":
            sc["delay_budget"] = sc.get("delay_budget", 0) + 1      # one more point at which time may pass while something else is ready
        common.annotate(sc)
        if not sc.get("prompt_only"):      # (too large for the timed schedule class: explored in the prompt class only)
            jobs.append((sc, None, limits)); by_name[sc["name"]] = sc
        sp = copy.deepcopy(sc); sp["name"] += "@prompt"; sp["family"] += "@prompt"; sp["schedule"] = "prompt"; sp["delay_budget"] = 0
        sp.pop("expect", None)
        common.annotate(sp)
        jobs.append((sp, None, limits)); by_name[sp["name"]] = sp
    # redelivery after a crash: every crash point of the canonical run of the single-execution wait / task scenarios
    for sc in scs:
        if sc["name"] in ("wait-seconds-5", "wait-timestamp-future", "wait-secondspath") or (tier == "thorough" and sc["name"] in ("exec-timeout-in-wait", "wait-timestamppath", "wait-seconds-1", "wait-timestamp-past")):
            s0 = copy.deepcopy(sc); s0["schedule"] = "prompt"; s0["delay_budget"] = 0
            labels, ops = c04.canonical(s0)
            for k in range(len(labels) + 1):
                s2 = copy.deepcopy(s0)
                s2["name"] = "%s@crash%d" % (sc["name"], k); s2["family"] = sc["family"] + "@crash"; s2["preserve_outcome"] = True
                lim = dict(limits, preamble=labels[:k] + [["crash", 1], ["restart", 1]], only=["M-time", "M-crash"])
                jobs.append((s2, None, lim)); by_name[s2["name"]] = s2
    outs = common.explore_many("checks.monsets", "timing", jobs, seed)
    tot, samples = common.collect(cr, outs, by_name, lambda v: v["monitor"] in ("M-time", "M-ref", "M-life", "M-crash"), "timing")
    return tot, samples, len(scs), len(jobs)

def run(tier, seed):
    cr = common.CheckResult(PROP)
    cases = parse_cases(tier)
    n = 0
    distinct = set()
    samples = []
    for s, want in cases:
        got = eval_parse(s)
        n += 1
        distinct.add(s[19:])   # fraction + offset notation
        if got[0] == "ok" and abs(Fraction(got[1]) - want) <= Fraction(1, 10 ** 6):
            if len(samples) < 3 and n % 5000 == 1:
                samples.append({"timestamp": s, "instant": float(want)})
            continue
        cls = classify_parse(s, want, got)
        off = s[-6:] if s[-1] != "Z" else "Z"
        sig = "parse|%s" % cls
        cr.add(sig, "%s parsed as %r, true instant %s" % (s, got, float(want)),
               {"kind": "parse", "property": PROP, "signature": sig, "input": s, "want": float(want), "got": list(got)}, size=len(s))
    tot, tsamples, nsc, njobs = run_timing(cr, tier, seed)
    cr.coverage = {
        "states": tot["states"], "transitions": tot["transitions"], "traces_validated_against_impl": tot["paths"],
        "timing_scenarios": nsc, "timing_explorations": njobs, "capped": tot["capped"],
        "timing_explanation": "firing clauses: Wait (Seconds/SecondsPath/Timestamp/TimestampPath, targets before/at/after now) with the event delivered at once, late "
                              "(timed schedule class: the clock may advance while messages are pending, delay budget 1-2) and redelivered after a crash at every point; Task TimeoutSeconds versus a "
                              "slow worker (reply before/at/after the deadline, all orders of reply and timer); execution TimeoutSeconds inside a Task / Wait / Parallel with States.ALL Retry+Catch present; "
                              "a subset under TZ=IST-5:30; all interleavings closed; M-time compares instants on the virtual clock exactly",
        "evaluations": n, "distinct_nontrivial": len(distinct),
        "rule": "every UTC offset -23:59..+23:59 at minute granularity x {0,1,3,6} fraction digits x 2 base instants, Z / +00:00 / -00:00 forms, "
                "7/9/12-digit fractions; distinct = distinct (fraction, offset) notations; oracle = exact rational instant from a strict RFC 3339 grammar",
        "samples": (samples or [{"timestamp": cases[0][0], "instant": float(cases[0][1])}]) + tsamples[:2],
        "exhaustive": True,
    }
    cr.assumptions = ["reference ref/rfc3339.py (strict grammar, exact rational arithmetic)"] + common.ASSUME_SIM
    return cr

def replay(rp):
    if rp.get("kind") == "engine":
        from . import replay as R
        return R.engine_replay(rp)
    if rp["kind"] == "parse":
        got = eval_parse(rp["input"])
        ok = got[0] == "ok" and abs(got[1] - rp["want"]) <= 1e-6
        print(("not reproduced" if ok else "REPRODUCED property=C08") + ": %s -> %r (true instant %s)" % (rp["input"], got, rp["want"]))
        return 0 if ok else 1
    return 2
