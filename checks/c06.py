"""C06 - a failing branch fails its Parallel/Map once; siblings cannot disturb the result."""
from . import common
from harness import corpus
PROP = "C06"
MONITORS = ("M-fail", "M-life", "M-drain", "M-ref", "M-hist", "M-carry")
def scenarios(tier):
    return corpus.fanout_fail_family(tier)
def run(tier, seed):
    return common.engine_check(PROP, scenarios(tier), MONITORS, tier, seed)
