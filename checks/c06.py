"""C06 - a failing branch fails its Parallel/Map once; siblings cannot disturb the result."""
from . import common
from harness import corpus
PROP = "C06"
MONITORS = ("M-fail", "M-life", "M-drain", "M-ref", "M-hist", "M-carry")
def scenarios(tier):
    scs = corpus.fanout_fail_family(tier)
    if tier == "thorough":
        # the timed schedule class: time may pass (once) while an event, a reply or a 0 ms timer is ready - siblings in a Wait or in a
        # Retry interval, Task time-outs and the heart-beat then interleave with the failure in more ways
        import copy
        for s0 in list(scs):
            if s0.get("schedule") != "timed" and s0["family"].startswith(("parfail-wait-sibling-", "parfail-recovering-sibling-", "parfail-retrying-sibling-", "mapfail-mc1-")):
                s = copy.deepcopy(s0)
                s["name"] += "@timed"; s["family"] += "@timed"; s["schedule"] = "timed"; s["delay_budget"] = 1
                scs.append(s)
    return scs
def run(tier, seed):
    return common.engine_check(PROP, scenarios(tier), MONITORS, tier, seed)
