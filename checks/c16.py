"""C16 - service quotas are enforced at the exact boundary (all sizes in a window around each limit at every enforcement point)."""
import json, multiprocessing
from . import common

PROP = "C16"
MAXD = 262144
MAXDEF = 1048576
MAXH = 25000
FA = "arn:aws:rpcmessage:local::function:"

def sizes(limit, tier):
    s = [limit - 2, limit - 1, limit, limit + 1, limit + 2, 2 * limit]
    return s

def js_string(total_len):
    """A JSON string value whose JSON text has exactly total_len characters."""
    return "x" * (total_len - 2)

def points():
    return ["api-start-input", "api-startsync-input", "pass-output", "pass-end-output", "task-reply", "task-end-reply", "task-reply-discarded", "invoke-reply-discarded", "task-reply-discarded-compact", "task-reply-discarded-padded", "task-reply-discarded-orphan-replayed",
            "map-output", "parallel-output", "callback-output", "callback-raw", "callback-raw-discarded", "definition-create", "definition-update", "name-create", "name-start", "name-create-nl", "name-start-nl", "history", "history-retry", "history-exact"]

def _case(args):
    point, size = args
    from harness.world import World, sm_arn, exec_arn
    from harness.api import ApiClient
    Z = {"Type": "Pass", "End": True}
    def world(machines, workers=None, typ="STANDARD"):
        w = World({"name": "c16", "machines": {k: {"definition": v, "type": typ} for k, v in machines.items()}, "workers": workers or {}, "record_sites": False, "horizon": 1e9})
        return w, ApiClient(w)
    def terminal(w, arn):
        for n in w.notes:
            d = n["body"]["detail"]
            if d["executionArn"] == arn and d["status"] != "RUNNING":
                return d["status"], d.get("error")
        return None, None
    got = None
    if point in ("api-start-input", "api-startsync-input"):
        typ = "EXPRESS" if point == "api-startsync-input" else "STANDARD"
        w, api = world({"m": {"StartAt": "A", "States": {"A": {"Type": "Pass", "Result": 1, "End": True}}}}, typ=typ)
        text = json.dumps(js_string(size))
        assert len(text) == size
        if point == "api-start-input":
            st, js, _ = api.call("StartExecution", {"stateMachineArn": sm_arn("m"), "name": "e", "input": text})
            w.run()
        else:
            task = api.start_async("StartSyncExecution", {"stateMachineArn": sm_arn("m"), "name": "e", "input": text})
            w.run(); r = api.finish(task)
            st, js = (r[0], r[1]) if r else (None, None)
        got = ("accepted",) if st == 200 else ("refused", (js or {}).get("__type") if isinstance(js, dict) else None, st)
        want_err = "InvalidExecutionInput"
    elif point in ("pass-output", "pass-end-output", "map-output", "parallel-output"):
        if point == "pass-output":
            d = {"StartAt": "A", "States": {"A": {"Type": "Pass", "Result": js_string(size), "Next": "Z"}, "Z": Z}}
        elif point == "pass-end-output":
            d = {"StartAt": "A", "States": {"A": {"Type": "Pass", "Result": js_string(size), "End": True}}}
        elif point == "map-output":
            d = {"StartAt": "A", "States": {"A": {"Type": "Map", "ItemsPath": "$.items", "Next": "Z",
                                                  "ItemProcessor": {"StartAt": "I", "States": {"I": {"Type": "Pass", "Result": js_string(size - 2), "End": True}}}}, "Z": Z}}
        else:
            d = {"StartAt": "A", "States": {"A": {"Type": "Parallel", "Next": "Z",
                                                  "Branches": [{"StartAt": "B", "States": {"B": {"Type": "Pass", "Result": js_string(size - 2), "End": True}}}]}, "Z": Z}}
        w, api = world({"m": d})
        w.script.append({"op": "start", "machine": "m", "name": "e", "input": {"items": [1]}})
        w.run()
        status, err = terminal(w, exec_arn("m", "e"))
        got = ("accepted",) if status == "SUCCEEDED" else ("refused", err, status)
        want_err = "States.DataLimitExceeded"
    elif point in ("task-reply", "task-end-reply"):
        st_ = {"Type": "Task", "Resource": FA + "f"}
        if point == "task-reply":
            st_["Next"] = "Z"; d = {"StartAt": "A", "States": {"A": st_, "Z": Z}}
        else:
            st_["End"] = True; d = {"StartAt": "A", "States": {"A": st_}}
        w, api = world({"m": d}, workers={"f": {"*": [["okstr", size]]}})
        w.script.append({"op": "start", "machine": "m", "name": "e", "input": {}})
        w.run()
        status, err = terminal(w, exec_arn("m", "e"))
        got = ("accepted",) if status == "SUCCEEDED" else ("refused", err, status)
        want_err = "States.DataLimitExceeded"
    elif point in ("task-reply-discarded", "invoke-reply-discarded"):
        # the Task throws its result away (ResultPath null): the state-output check cannot see it, only the check on the reply itself can
        if point == "task-reply-discarded":
            st_ = {"Type": "Task", "Resource": FA + "f", "ResultPath": None, "Next": "Z"}
        else:
            st_ = {"Type": "Task", "Resource": "arn:aws:states:local::rpcmessage:invoke", "Parameters": {"FunctionName": FA + "f", "Payload": 1}, "ResultPath": None, "Next": "Z"}
        w, api = world({"m": {"StartAt": "A", "States": {"A": st_, "Z": Z}}}, workers={"f": {"*": [["okstr", size]]}})
        w.script.append({"op": "start", "machine": "m", "name": "e", "input": {}})
        w.run()
        status, err = terminal(w, exec_arn("m", "e"))
        got = ("accepted",) if status == "SUCCEEDED" else ("refused", err, status)
        want_err = "States.DataLimitExceeded"
    elif point == "task-reply-discarded-orphan-replayed":
        # the engine restarts while the Task waits; the reply reaches the new instance *before* the redelivered Task event, is parked as an
        # orphan and replayed once the Task has re-registered: the replayed reply is subject to the same quota
        st_ = {"Type": "Task", "Resource": FA + "f", "ResultPath": None, "Next": "Z"}
        w, api = world({"m": {"StartAt": "A0", "States": {"A0": {"Type": "Pass", "Next": "A"}, "A": st_, "Z": Z}}}, workers={"f": {"*": [["delay", ["okstr", size]]]}})
        w.script.append({"op": "start", "machine": "m", "name": "e", "input": {}})
        guard = 0
        while not w.workers["f"].requests and guard < 100:
            w.step(w.enabled()[0]); guard += 1
        w.step(("crash", 1)); w.step(("restart", 1))
        w.step(("wreply", "f"))
        en = w.enabled()
        reply = [e for e in en if e[0] == "deliver" and "reply_to" in e[1]]
        if reply:
            w.step(reply[0])        # the reply first: no pending request yet -> orphan
        w.run()
        status, err = terminal(w, exec_arn("m", "e"))
        got = ("accepted",) if status == "SUCCEEDED" else ("refused", err, status)
        want_err = "States.DataLimitExceeded"
    elif point in ("task-reply-discarded-compact", "task-reply-discarded-padded"):
        # the quota is on the characters of the reply text as sent, whatever its formatting: a compact array (no blanks after the commas)
        # and a short value followed by insignificant white space, each of exactly the given length
        if size < 6:
            text = ("[" + "1" * (size - 2) + "]") if point.endswith("compact") else ("1" + " " * (size - 1))
        elif point.endswith("compact"):
            k = (size - 3) // 2
            text = "[" + ("1" if (size - 3) % 2 == 0 else "11") + ",1" * (k if (size - 3) % 2 == 0 else k) + "]"
            text = text if len(text) == size else "[" + "1" * (size - len(text) + 1) + text[2:]
        else:
            text = '"pad"' + " " * (size - 5)
        assert len(text) == size and json.loads(text) is not None, (len(text), size)
        st_ = {"Type": "Task", "Resource": FA + "f", "ResultPath": None, "Next": "Z"}
        w, api = world({"m": {"StartAt": "A", "States": {"A": st_, "Z": Z}}}, workers={"f": {"*": [["raw", text]]}})
        w.script.append({"op": "start", "machine": "m", "name": "e", "input": {}})
        w.run()
        status, err = terminal(w, exec_arn("m", "e"))
        got = ("accepted",) if status == "SUCCEEDED" else ("refused", err, status)
        want_err = "States.DataLimitExceeded"
    elif point in ("callback-raw", "callback-raw-discarded"):
        # the callback message as any AMQP client (another front end) can publish it to the reply queue, not through this API
        from pika._core import BasicProperties
        st_ = {"Type": "Task", "Resource": "arn:aws:states:local::rpcmessage:invoke.waitForTaskToken",
               "Parameters": {"FunctionName": FA + "f", "Payload": {"token.$": "$$.Task.Token"}}, "Next": "Z"}
        if point.endswith("discarded"):
            st_["ResultPath"] = None
        w, api = world({"m": {"StartAt": "A", "States": {"A": st_, "Z": Z}}}, workers={"f": {"*": [["none"]]}})
        w.script.append({"op": "start", "machine": "m", "name": "e", "input": {}})
        while not w.workers["f"].requests:
            en = w.enabled()
            w.step(en[0])
        take = [op for op in w.broker.oplog if op.get("op") == "worker_take"][0]
        text = json.dumps(js_string(size))
        w.env_ch.basic_publish("", take["reply_to"], text, BasicProperties(correlation_id=take["correlation_id"], content_type="application/json",
                                                                            headers={"x-SendTaskSuccess": True}))
        w.run()
        status, err = terminal(w, exec_arn("m", "e"))
        got = ("accepted",) if status == "SUCCEEDED" else ("refused", err, status)
        want_err = "States.DataLimitExceeded"
    elif point == "callback-output":
        d = {"StartAt": "A", "States": {"A": {"Type": "Task", "Resource": "arn:aws:states:local::rpcmessage:invoke.waitForTaskToken",
                                              "Parameters": {"FunctionName": FA + "f", "Payload": {"token.$": "$$.Task.Token"}}, "Next": "Z"}, "Z": Z}}
        w, api = world({"m": d}, workers={"f": {"*": [["none"]]}})
        w.script.append({"op": "start", "machine": "m", "name": "e", "input": {}})
        while not w.workers["f"].requests:
            en = w.enabled()
            w.step(en[0])
        token = json.loads(w.workers["f"].requests[0][2])["token"]
        text = json.dumps(js_string(size))
        st, js, _ = api.call("SendTaskSuccess", {"taskToken": token, "output": text})
        w.run()
        status, err = terminal(w, exec_arn("m", "e"))
        if st == 200:
            got = ("accepted",) if status == "SUCCEEDED" else ("accepted-by-api-then", err, status)
        else:
            got = ("refused", (js or {}).get("__type") if isinstance(js, dict) else None, st)
        want_err = "InvalidOutput"
    elif point in ("definition-create", "definition-update"):
        base = {"Comment": "", "StartAt": "A", "States": {"A": {"Type": "Pass", "End": True}}}
        pad = size - len(json.dumps(base))
        if pad < 0:
            text = "" if size <= 0 else json.dumps(base)[:size]
        else:
            base["Comment"] = "c" * pad
            text = json.dumps(base)
        assert len(text) == size or pad < 0
        w, api = world({})
        if point == "definition-create":
            st, js, _ = api.call("CreateStateMachine", {"name": "m", "roleArn": "arn:aws:iam::0123456789:role/r", "definition": text})
        else:
            api.call("CreateStateMachine", {"name": "m", "roleArn": "arn:aws:iam::0123456789:role/r", "definition": json.dumps({"StartAt": "A", "States": {"A": {"Type": "Pass", "End": True}}})})
            st, js, _ = api.call("UpdateStateMachine", {"stateMachineArn": sm_arn("m"), "definition": text})
        got = ("accepted",) if st == 200 else ("refused", (js or {}).get("__type") if isinstance(js, dict) else None, st)
        want_err = "InvalidDefinition"
    elif point in ("name-create", "name-start", "name-create-nl", "name-start-nl"):
        # (-nl: the last character is a line feed, which is not among the forbidden characters: it counts like any other)
        nm = "n" * size if not point.endswith("-nl") else ("n" * (size - 1) + "\n")[:size]
        point = point[:-3] if point.endswith("-nl") else point
        w, api = world({"m": {"StartAt": "A", "States": {"A": {"Type": "Pass", "End": True}}}})
        if point == "name-create":
            st, js, _ = api.call("CreateStateMachine", {"name": nm, "roleArn": "arn:aws:iam::0123456789:role/r", "definition": json.dumps({"StartAt": "A", "States": {"A": {"Type": "Pass", "End": True}}})})
        else:
            st, js, _ = api.call("StartExecution", {"stateMachineArn": sm_arn("m"), "name": nm})
            w.run()
        got = ("accepted",) if st == 200 else ("refused", (js or {}).get("__type") if isinstance(js, dict) else None, st)
        want_err = "InvalidName"
    elif point == "history-retry":
        # the history also grows while one state is retried (no new StateEntered per attempt)
        d = {"StartAt": "T", "States": {"T": {"Type": "Task", "Resource": FA + "f", "Retry": [{"ErrorEquals": ["E1"], "IntervalSeconds": 0, "MaxAttempts": 100000, "BackoffRate": 1.0}], "Next": "Z"}, "Z": Z}}
        w, api = world({"m": d}, workers={"f": {"*": [["err", "E1", "again"]]}})
        w.script.append({"op": "start", "machine": "m", "name": "e", "input": {}})
        w.run(max_steps=size * 2)
        status, err = terminal(w, exec_arn("m", "e"))
        n = len(w.history(exec_arn("m", "e")) or [])
        got = ("history", status, err, n)
        want_err = None
    elif point == "history-exact":
        # the exact boundary: a state whose StateEntered event has a number above the limit is not executed (the execution fails there),
        # one whose StateEntered is event number 25000 is; `size` leading (failing, caught) fan-outs shift where the loop's events fall
        states = {"A": {"Type": "Pass", "Next": "C"}, "C": {"Type": "Choice", "Choices": [{"Variable": "$.stop", "BooleanEquals": True, "Next": "Z"}], "Default": "A"}, "Z": Z}
        first = "A"
        for i in range(size):
            # (a Parallel whose only branch is a Fail state, caught: the Fail state logs no StateExited - an odd number of events)
            states["T%d" % i] = {"Type": "Parallel", "Branches": [{"StartAt": "F%d" % i, "States": {"F%d" % i: {"Type": "Fail", "Error": "E"}}}],
                                 "Catch": [{"ErrorEquals": ["States.ALL"], "Next": first, "ResultPath": None}], "Next": first}
            first = "T%d" % i
        w, api = world({"m": {"StartAt": first, "States": states}}, workers={"f": {"*": [["err", "E1", "x"]]}})
        w.script.append({"op": "start", "machine": "m", "name": "e", "input": {"stop": False}})
        w.run(max_steps=40000)
        status, err = terminal(w, exec_arn("m", "e"))
        h = [dict(x) for x in (w.history(exec_arn("m", "e")) or [])]
        entered = [i + 1 for i, ev in enumerate(h) if str(ev.get("type", "")).endswith("StateEntered")]
        ran_over = [p_ for p_ in entered if p_ > MAXH and p_ < len(h) and not str(h[p_].get("type", "")).startswith("ExecutionFailed")]
        got = ("history-exact", status, err, len(h), [p_ for p_ in entered if MAXH - 2 <= p_ <= MAXH + 4], ran_over)
        want_err = None
    elif point == "history":
        # a machine that loops for ever: its history must not grow without bound
        d = {"StartAt": "A", "States": {"A": {"Type": "Pass", "Next": "C"}, "C": {"Type": "Choice", "Choices": [{"Variable": "$.stop", "BooleanEquals": True, "Next": "Z"}], "Default": "A"}, "Z": Z}}
        w, api = world({"m": d})
        w.script.append({"op": "start", "machine": "m", "name": "e", "input": {"stop": False}})
        w.run(max_steps=size)
        status, err = terminal(w, exec_arn("m", "e"))
        n = len(w.history(exec_arn("m", "e")) or [])
        got = ("history", status, err, n)
        want_err = None
    w.close()
    return got, want_err

def cases(tier):
    out = []
    for pt in points():
        if pt.startswith("definition"):
            szs = [0, MAXDEF - 2, MAXDEF - 1, MAXDEF, MAXDEF + 1, MAXDEF + 2, 2 * MAXDEF]
            lim = MAXDEF
        elif pt.startswith("name"):
            szs = [0, 1, 2, 79, 80, 81, 82, 160]
            lim = 80
        elif pt == "history-exact":
            szs = [0, 1, 2]
            lim = MAXH
        elif pt in ("history", "history-retry"):
            szs = [40000]
            lim = MAXH
        else:
            szs = [2, 3, MAXD - 2, MAXD - 1, MAXD, MAXD + 1, MAXD + 2, 2 * MAXD]
            lim = MAXD
        for s in szs:
            out.append((pt, s, lim))
    return out

def run(tier, seed):
    cr = common.CheckResult(PROP)
    cs = cases(tier)
    ctx = multiprocessing.get_context("fork")
    with ctx.Pool(common.JOBS) as pool:
        outs = pool.map(_case, [(pt, s) for pt, s, lim in cs], chunksize=1)
    n = 0
    exact_entries = []
    for (pt, s, lim), (got, want_err) in zip(cs, outs):
        n += 1
        if pt == "history-exact":
            _, status, err, hlen, near, ran_over = got
            exact_entries.extend(near)
            if status != "FAILED" or ran_over or hlen > MAXH + 10:
                sig = "quota|history-exact|" + ("state-run-past-the-limit" if ran_over else "not-failed")
                cr.add(sig, "looping execution behind %d leading caught fan-outs ended %s (%s) with %d events; states entered at event numbers %s were executed although the limit is %d" % (s, status, err, hlen, ran_over, MAXH),
                       {"kind": "quota", "property": PROP, "signature": sig, "point": pt, "size": s}, size=1)
            continue
        if pt in ("history", "history-retry"):
            _, status, err, hlen = got
            if status != "FAILED" or hlen > MAXH + 10:
                sig = "quota|" + pt
                cr.add(sig, "a looping execution ended %s (%s) with %d history events (limit %d)" % (status, err, hlen, MAXH), {"kind": "quota", "property": PROP, "signature": sig, "point": pt, "size": s}, size=1)
            continue
        lo = 1 if (pt.startswith("name") or pt.startswith("definition")) else 0
        should_accept = lo <= s <= lim
        ok = (got[0] == "accepted") if should_accept else (got[0] == "refused" and got[1] == want_err)
        if pt == "definition-update" and s == 0 and got[0] == "refused" and got[1] == "MissingRequiredParameter":
            ok = True    # an empty definition in an update is "no definition supplied"
        if not ok:
            where = "below" if s < lim else "at" if s == lim else "above"
            sig = "quota|%s|%s|%s" % (pt, where if s >= lo else "empty", got[0])
            cr.add(sig, "%s with size %d (limit %d): %r, expected %s" % (pt, s, lim, got, "accepted" if should_accept else "refused with " + str(want_err)),
                   {"kind": "quota", "property": PROP, "signature": sig, "point": pt, "size": s}, size=abs(s - lim))
    cr.coverage = {
        "evaluations": n, "distinct_nontrivial": n,
        "rule": "for each enforcement point (StartExecution / StartSyncExecution input, SendTaskSuccess output, Pass / Map / Parallel state output with Next and with End, task reply with Next, with End and thrown away by ResultPath null (short and invoke form), callback message published straight to the reply queue (kept and thrown away), "
                "definition in Create / Update, names in Create / StartExecution) every size L-2..L+2 plus a tiny one and 2L, as bare JSON strings so that every serializer yields the same text length; "
                "plus a looping machine run for 40000 steps against the real 25000-event history limit, and the same loop behind 0 / 1 / 2 leading caught fan-outs (so that state entries fall on event numbers 25000 and 25001): no state entered past the limit is executed; each through the real API / engine on the simulated broker",
        "history_boundary_entries_observed": sorted(set(exact_entries)),
        "points": points(), "samples": [{"point": "pass-output", "size": MAXD}, {"point": "api-start-input", "size": MAXD + 1}], "exhaustive": True,
    }
    cr.assumptions = ["sizes are measured on the JSON text of a bare string value"] + common.ASSUME_SIM[:1]
    return cr

def replay(rp):
    got, want_err = _case((rp["point"], rp["size"]))
    print("observed %r (expected error %s)" % (got, want_err))
    cr = common.CheckResult(PROP)
    return 1
