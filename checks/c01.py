"""C01 - executions compute what the States Language prescribes (all programs from a grammar x inputs x task outcomes,
run through the real engine on the canonical schedule and through the reference interpreter)."""
import json, copy, itertools, multiprocessing
from . import common
from ref import asl as RA

PROP = "C01"

INPUTS = [{}, {"a": 1}, {"a": {"b": [1, 2]}, "b": "s", "items": [1, {"a": 1}]}, {"a": 0, "items": []}, [1, 2], 5, None, {"Error": "x"}, {"a": {"b": []}, "keep": 1}]
T_OUT = [["ok", {"r": 1}], ["ok", 7], ["ok", [1]], ["ok", {"Error": "data", "x": 1}], ["err", "E1", "boom"],
         # by-attempt sequences (the worker counts attempts per payload): fail, fail with another error, then succeed
         [["err", "E1", "b1"], ["err", "E2", "b2"], ["ok", {"ok": 3}]], [["err", "E2", "b2"], ["err", "E2", "b2"], ["ok", 4]],
         # fail once, then succeed: a single retry suffices - for every retried state of a chain (each sees its own payload first)
         [["err", "E1", "b1"], ["ok", {"ok": 2}]]]

def fa(f):
    return "arn:aws:rpcmessage:local::function:" + f

# name -> (state dict without Next/End, uses a task?)
def menu():
    m = {}
    m["p_plain"] = {"Type": "Pass"}
    m["p_result"] = {"Type": "Pass", "Result": {"r": 1}, "ResultPath": "$.p"}
    m["p_params"] = {"Type": "Pass", "Parameters": {"x.$": "$.a", "lit": [1, {"k": "v"}], "nest": {"y.$": "$.a"}}}
    m["p_inputpath"] = {"Type": "Pass", "InputPath": "$.a"}
    m["p_outputpath"] = {"Type": "Pass", "OutputPath": "$.a"}
    m["p_nullin"] = {"Type": "Pass", "InputPath": None}
    m["p_nullres"] = {"Type": "Pass", "Result": 5, "ResultPath": None}
    m["p_nullout"] = {"Type": "Pass", "OutputPath": None}
    m["p_order"] = {"Type": "Pass", "InputPath": "$.a", "Parameters": {"w.$": "$.b"}, "ResultPath": "$.res", "OutputPath": "$.res"}
    m["p_ctx"] = {"Type": "Pass", "Parameters": {"n.$": "$$.State.Name", "in.$": "$$.Execution.Input"}}
    m["p_resultroot"] = {"Type": "Pass", "Result": [1, 2]}
    m["p_in_rp"] = {"Type": "Pass", "InputPath": "$.a", "ResultPath": "$.r"}
    m["p_in_rpnull"] = {"Type": "Pass", "InputPath": "$.a", "ResultPath": None}
    m["t_in_rp"] = {"Type": "Task", "Resource": fa("f"), "InputPath": "$.a", "ResultPath": "$.r"}
    # the result is (part of) the input and is placed *inside* the input object it refers to: placing works on copies
    m["p_rp_nested_self"] = {"Type": "Pass", "ResultPath": "$.a.whole"}
    m["p_rp_nested_part"] = {"Type": "Pass", "Parameters": {"m.$": "$.a"}, "ResultPath": "$.a.t"}
    m["t_rp_nested"] = {"Type": "Task", "Resource": fa("f"), "ResultPath": "$.a.r"}
    m["p_emptyparams"] = {"Type": "Pass", "Parameters": {}, "ResultPath": "$.p"}
    m["t_emptysel"] = {"Type": "Task", "Resource": fa("f"), "Parameters": {}, "ResultSelector": {}, "ResultPath": "$.r"}
    m["t_plain"] = {"Type": "Task", "Resource": fa("f")}
    # a Task with a Retrier of its own, top level (its retry bookkeeping must not reach the state after it)
    m["t_retry"] = {"Type": "Task", "Resource": fa("f"), "Retry": [{"ErrorEquals": ["States.ALL"], "IntervalSeconds": 1, "MaxAttempts": 1}]}
    m["t_params"] = {"Type": "Task", "Resource": fa("f"), "Parameters": {"q.$": "$.a"}}
    m["t_sel"] = {"Type": "Task", "Resource": fa("f"), "ResultSelector": {"v.$": "$"}, "ResultPath": "$.t", "OutputPath": "$.t"}
    m["t_catch"] = {"Type": "Task", "Resource": fa("f"), "Catch": [{"ErrorEquals": ["States.ALL"], "Next": "@next", "ResultPath": "$.err"}]}
    m["t_catchroot"] = {"Type": "Task", "Resource": fa("f"), "Catch": [{"ErrorEquals": ["E1"], "Next": "@next"}]}
    m["c_def"] = {"Type": "Choice", "Choices": [{"Variable": "$.a", "NumericEquals": 1, "Next": "@next"}], "Default": "@D"}
    m["c_nodef"] = {"Type": "Choice", "Choices": [{"Variable": "$.a", "NumericEquals": 1, "Next": "@next"}]}
    m["c_order"] = {"Type": "Choice", "Choices": [{"Variable": "$.a", "NumericGreaterThanEquals": 0, "Next": "@D"},
                                                  {"Variable": "$.a", "NumericEquals": 1, "Next": "@next"}], "Default": "@next"}
    # operands of the *Path comparators are read from the effective input (after InputPath), like the Variable
    m["c_pathin"] = {"Type": "Choice", "InputPath": "$.a", "Choices": [{"Variable": "$.b[0]", "NumericLessThanPath": "$.b[1]", "Next": "@next"}], "Default": "@D"}
    m["w1"] = {"Type": "Wait", "Seconds": 1}
    m["w_path"] = {"Type": "Wait", "SecondsPath": "$.a", "OutputPath": "$"}
    m["succeed"] = {"Type": "Succeed"}
    m["succeed_paths"] = {"Type": "Succeed", "InputPath": "$.a"}
    m["fail"] = {"Type": "Fail", "Error": "E.fail", "Cause": "the cause"}
    brc = [0]
    def br(st):
        brc[0] += 1
        return {"StartAt": "B%d" % brc[0], "States": {"B%d" % brc[0]: dict(st, End=True)}}
    m["par2"] = {"Type": "Parallel", "Branches": [br({"Type": "Pass", "Result": 1}), br({"Type": "Pass", "Result": {"two": 2}})]}
    m["par_rp"] = {"Type": "Parallel", "Branches": [br({"Type": "Pass"}), br({"Type": "Pass", "Result": 2})], "ResultPath": "$.par",
                   "ResultSelector": {"first.$": "$[0]", "second.$": "$[1]"}}
    m["par_task"] = {"Type": "Parallel", "Branches": [br({"Type": "Task", "Resource": fa("f")}), br({"Type": "Pass", "Result": "p"})]}
    m["par_fail"] = {"Type": "Parallel", "Branches": [br({"Type": "Pass", "Result": 1}), {"StartAt": "BF1", "States": {"BF1": {"Type": "Fail", "Error": "E.br", "Cause": "c"}}}]}
    m["par_catch"] = {"Type": "Parallel", "Branches": [{"StartAt": "BF2", "States": {"BF2": {"Type": "Fail", "Error": "E.br", "Cause": "c"}}}],
                      "Catch": [{"ErrorEquals": ["E.br"], "Next": "@next", "ResultPath": "$.caught"}]}
    m["par_retry_nested"] = {"Type": "Parallel", "Retry": [{"ErrorEquals": ["States.ALL"], "IntervalSeconds": 1, "MaxAttempts": 1}],
                             "Branches": [br({"Type": "Task", "Resource": fa("f"), "Retry": [{"ErrorEquals": ["E2"], "IntervalSeconds": 1, "MaxAttempts": 1}]})]}
    m["map_retry_nested"] = {"Type": "Map", "ItemsPath": "$.items", "Retry": [{"ErrorEquals": ["States.ALL"], "IntervalSeconds": 1, "MaxAttempts": 1}],
                             "ItemProcessor": {"StartAt": "I99", "States": {"I99": {"Type": "Task", "Resource": fa("f"), "End": True,
                                                                                 "Retry": [{"ErrorEquals": ["E2"], "IntervalSeconds": 1, "MaxAttempts": 1}]}}}}
    def it(st):
        brc[0] += 1
        return {"StartAt": "I%d" % brc[0], "States": {"I%d" % brc[0]: dict(st, End=True)}}
    m["map_items"] = {"Type": "Map", "ItemsPath": "$.items", "ItemProcessor": it({"Type": "Pass"})}
    m["map_sel"] = {"Type": "Map", "ItemsPath": "$.items", "ItemProcessor": it({"Type": "Pass"}),
                    "ItemSelector": {"i.$": "$$.Map.Item.Index", "v.$": "$$.Map.Item.Value", "whole.$": "$.a"}, "ResultPath": "$.mapped"}
    m["map_legacy"] = {"Type": "Map", "ItemsPath": "$.items", "Iterator": it({"Type": "Pass"}), "Parameters": {"v.$": "$$.Map.Item.Value"}}
    m["map_task"] = {"Type": "Map", "ItemsPath": "$.items", "ItemProcessor": it({"Type": "Task", "Resource": fa("f")}), "MaxConcurrency": 1}
    m["map_root"] = {"Type": "Map", "ItemProcessor": it({"Type": "Pass", "Parameters": {"it.$": "$"}})}
    # InputPath on a fan-out: items / branch input come from the effective input, ResultPath merges into the *raw* input, also when
    # the Map re-enters itself for its next MaxConcurrency batch or is retried
    m["map_inpath"] = {"Type": "Map", "InputPath": "$.a", "ItemsPath": "$.b", "ResultPath": "$.m", "MaxConcurrency": 1, "ItemProcessor": it({"Type": "Pass"})}
    m["map_inpath_retry"] = {"Type": "Map", "InputPath": "$.a", "ItemsPath": "$.b", "ResultPath": "$.m", "Retry": [{"ErrorEquals": ["States.ALL"], "IntervalSeconds": 1, "MaxAttempts": 2}],
                             "ItemProcessor": it({"Type": "Task", "Resource": fa("f")})}
    m["par_inpath"] = {"Type": "Parallel", "InputPath": "$.a", "ResultPath": "$.par", "Branches": [br({"Type": "Pass"}), br({"Type": "Pass", "Parameters": {"b.$": "$.b"}})]}
    return m

def build(names):
    """Chain the named templates; '@next' = the following state (or an end marker), '@D' = default marker."""
    mn = menu()
    states = {}
    seq = []
    import re as _re
    for i, n in enumerate(names):
        st = json.loads(_re.sub(r'"(B\d+|BF\d+|I\d+)"', lambda mo: '"%s_%d"' % (mo.group(1), i), json.dumps(mn[n])))
        seq.append(("S%d_%s" % (i, n), st))
    for i, (nm, st) in enumerate(seq):
        nxt = seq[i + 1][0] if i + 1 < len(seq) else "END"
        txt = json.dumps(st).replace('"@next"', json.dumps(nxt)).replace('"@D"', '"DFLT"')
        st = json.loads(txt)
        if st["Type"] not in ("Choice", "Succeed", "Fail"):
            st["Next"] = nxt
        states[nm] = st
    states["END"] = {"Type": "Pass", "End": True}
    states["DFLT"] = {"Type": "Pass", "Result": "took-default", "ResultPath": "$.d", "End": True}
    return {"StartAt": seq[0][0], "States": states}

def count_tasks(d):
    return json.dumps(d).count('"Type": "Task"')

def programs(tier):
    names = sorted(menu())
    out = [(n,) for n in names]
    out += list(itertools.product(names, repeat=2))
    if tier == "thorough":
        core = ["p_result", "p_order", "p_params", "t_plain", "t_sel", "t_catch", "c_def", "w1", "par2", "par_task", "par_catch", "map_sel", "map_task", "fail"]
        out += list(itertools.product(core, repeat=3))
    return out

def cases(tier):
    """(names, input index, outcome) - one outcome shared by every invocation of f (plus a per-attempt variant)."""
    out = []
    for names in programs(tier):
        d = build(names)
        nt = count_tasks(d)
        outs = T_OUT if nt else [None]
        ins = range(len(INPUTS)) if (tier == "thorough" or len(names) == 1) else (0, 1, 2, 3, 7, 8)
        for ii in ins:
            for o in outs:
                out.append((names, ii, o))
    return out

def workers_for(o):
    if not o:
        return {}
    return {"f": {"*": o if isinstance(o[0], list) else [o]}}

def _batch(args):
    tier, lo, hi = args
    cs = cases(tier)[lo:hi]
    res = []
    while len(res) < len(cs):
        res.extend(_one_world(cs[len(res):]))
    return res

def _one_world(cs):
    """Run the cases one after the other in one World.  If one of them never ends (runaway guard) the results up to and
    including it are returned (its own result is None = never terminal) and the caller starts a new World for the rest."""
    from harness.world import World, exec_arn
    res = []
    # every machine gets its own worker queue so that attempt counters never mix between executions
    got = {}
    sc = {"name": "c01-batch", "machines": {}, "starts": [], "record_sites": False, "workers": {}, "horizon": 1e9}
    for idx, (names, ii, o) in enumerate(cs):
        d = json.loads(json.dumps(build(names)).replace(':function:f"', ':function:f%d"' % idx))
        sc["machines"]["m%d" % idx] = {"definition": d}
        if o:
            sc["workers"]["f%d" % idx] = workers_for(o)["f"]
        sc["starts"].append({"machine": "m%d" % idx, "name": "e", "input": INPUTS[ii], "after_quiet": True})
    w = World(sc)
    w.run(max_steps=1000000, runaway=3000)
    ndone = len(cs) if not w.runaway else max(w.api_pos, 1)
    for n in w.notes:
        det = n["body"]["detail"]
        if det["status"] != "RUNNING":
            got.setdefault(det["executionArn"], []).append(
                [det["status"], json.loads(det["output"]) if det.get("output") is not None else None, det.get("error"), det.get("cause")])
    recs = w.executions()
    for idx in range(ndone):
        arn = exec_arn("m%d" % idx, "e")
        r = recs.get(arn)
        got[arn + "#rec"] = None if r is None else [r.get("status"), r.get("output"), r.get("error")]
    w.close()
    for idx in range(ndone):
        arn = exec_arn("m%d" % idx, "e")
        if w.runaway and idx == ndone - 1:
            res.append((None, got.get(arn + "#rec")))
        else:
            res.append((got.get(arn), got.get(arn + "#rec")))
    return res

def ref_run(names, ii, o, inband=False):
    # (the engine's own Cause boiler-plate is tolerated by loose_eq)
    d = build(names)
    ctx = {"Execution": {"Input": copy.deepcopy(INPUTS[ii]), "Name": "e"}}
    return RA.run(d, copy.deepcopy(INPUTS[ii]), RA.ScriptedTasks(workers_for(o)), context=ctx, inband=inband, exec_timeout=300)

def loose_eq(g, w):
    """JSON equality, except that under a member named Cause the engine may prefix its own boiler-plate."""
    if isinstance(g, dict) and isinstance(w, dict):
        if set(g) != set(w):
            # an Error Output SHOULD carry a Cause: tolerate one the engine supplies where the reference has none
            if not ("Error" in w and set(g) - set(w) == {"Cause"} and not set(w) - set(g)):
                return False
        for k in w:
            if k == "Cause" and isinstance(g[k], str) and isinstance(w[k], str):
                if not g[k].endswith(w[k]):
                    return False
            elif not loose_eq(g[k], w[k]):
                return False
        return True
    if isinstance(g, list) and isinstance(w, list):
        return len(g) == len(w) and all(loose_eq(a, b) for a, b in zip(g, w))
    return json.dumps(g) == json.dumps(w)

def agree(g, o):
    """engine terminal notification g=[status, output, error, cause] vs reference outcome o."""
    if g[0] != o.status:
        return False
    if o.status == "SUCCEEDED":
        return loose_eq(g[1], o.output)
    if o.error in RA.RUNTIME_CLASS:
        return g[2] in RA.RUNTIME_CLASS
    return g[2] == o.error

def judge(names, ii, o, g, rec):
    """None if fine / unjudged, else (class, detail)."""
    try:
        want = ref_run(names, ii, o)
    except RA.Unjudged:
        return "unjudged"
    if not g or len(g) != 1:
        return ("terminal-count", "terminal notifications: %r, reference %r" % (g, want.key()))
    g = g[0]
    ok = agree(g, want)
    if ok and want.status == "FAILED" and names[-1] == "fail" and want.cause and not (g[3] or "").endswith(want.cause):
        ok = False
    if ok:
        if rec is not None:
            out = json.loads(rec[1]) if rec[1] is not None else None
            if rec[0] != g[0] or json.dumps(out, sort_keys=True) != json.dumps(g[1], sort_keys=True) or rec[2] != g[2]:
                return ("record-disagrees", "record %r vs notification %r" % (rec, g))
        return None
    # known defect model: the engine derives FAILED / task failure from a truthy "Error" member of the data
    try:
        alt = ref_run(names, ii, o, inband=True)
        if agree(g, alt):
            return ("inband-error-member", "engine %r; States Language result %r (data with a truthy 'Error' member is treated as a failure)" % (g[:3], want.key()))
    except RA.Unjudged:
        pass
    if INPUTS[ii] is None:
        # known defect model: a null document is read as {} by every path (see C12 read-null-document-yields-empty-object)
        try:
            d = build(names)
            alt = RA.run(d, None, RA.ScriptedTasks(workers_for(o)), context={"Execution": {"Input": None, "Name": "e"}}, exec_timeout=300, nullread=True)
            if agree(g, alt):
                return ("null-input-read-as-empty-object", "engine %r; reference %r" % (g[:3], want.key()))
            alt = RA.run(d, None, RA.ScriptedTasks(workers_for(o)), context={"Execution": {"Input": None, "Name": "e"}}, exec_timeout=300, nullread=True, inband=True)
            if agree(g, alt):
                return ("null-input-read-as-empty-object", "(together with the in-band Error convention) engine %r; reference %r" % (g[:3], want.key()))
        except RA.Unjudged:
            return "unjudged"      # the defect model itself cannot predict this case: nothing to compare with
    return ("mismatch", "engine %r; reference %r" % (g[:3], want.key()))

def run(tier, seed):
    cr = common.CheckResult(PROP)
    cs = cases(tier)
    n = len(cs)
    step = 300
    chunks = [(tier, lo, min(n, lo + step)) for lo in range(0, n, step)]
    ctx = multiprocessing.get_context("fork")
    with ctx.Pool(common.JOBS) as pool:
        outs = pool.map(_batch, chunks, chunksize=1)
    got = [g for o in outs for g in o]
    judged = unj = 0
    statuses = {}
    for (names, ii, o), (g, rec) in zip(cs, got):
        v = judge(names, ii, o, g, rec)
        if v == "unjudged":
            unj += 1
            continue
        judged += 1
        if g and len(g) == 1:
            statuses[g[0][0]] = statuses.get(g[0][0], 0) + 1
        if v is None:
            continue
        cls, detail = v
        if cls == "mismatch" or cls == "terminal-count" or cls == "record-disagrees":
            sig = "c01|%s|%s" % (cls, "+".join(sorted(set(names))))
        else:
            sig = "c01|%s" % cls
        cr.add(sig, "%s input %s outcome %s: %s" % ("->".join(names), json.dumps(INPUTS[ii]), json.dumps(o), detail),
               {"kind": "program", "property": PROP, "signature": sig, "names": list(names), "input_index": ii, "outcome": o},
               size=len(names) * 100 + len(json.dumps(INPUTS[ii])))
    cr.coverage = {
        "evaluations": n, "distinct_nontrivial": judged,
        "rule": "all chains of length <= %d over %d state templates (Pass/Task/Choice/Wait/Succeed/Fail/Parallel/Map incl. an InputPath->Parameters->ResultPath->OutputPath "
                "ordering witness, Catch, ResultSelector, ItemSelector, legacy Iterator) x inputs from a %d-value JSON alphabet x task outcome in {object, scalar, array, "
                "object with an 'Error' member, error E1}; each run through the real engine (canonical schedule, simulated broker) and ref/asl.py; terminal status and "
                "output / error name compared on the terminal notification and on the DescribeExecution record; non-trivial = judged (the reference defines the outcome)"
                % (3 if tier == "thorough" else 2, len(menu()), len(INPUTS)),
        "judged": judged, "unjudged": unj, "engine_status_counts": statuses, "programs": len(programs(tier)),
        "samples": [{"program": list(cs[0][0]), "input": INPUTS[cs[0][1]], "outcome": cs[0][2]},
                    {"program": list(cs[n // 2][0]), "input": INPUTS[cs[n // 2][1]], "outcome": cs[n // 2][2]}],
        "exhaustive": True,
    }
    cr.assumptions = ["reference interpreter ref/asl.py (+ref/jsonpath, template, choice)"] + common.ASSUME_SIM[:1]
    return cr

def replay(rp):
    names, ii, o = tuple(rp["names"]), rp["input_index"], rp["outcome"]
    from harness.world import World, exec_arn
    sc = {"name": "c01-replay", "machines": {"m0": {"definition": build(names)}}, "workers": workers_for(o),
          "starts": [{"machine": "m0", "name": "e", "input": INPUTS[ii]}], "horizon": 1e9}
    w = World(sc); w.run()
    g = []
    for n in w.notes:
        det = n["body"]["detail"]
        if det["status"] != "RUNNING":
            g.append([det["status"], json.loads(det["output"]) if det.get("output") is not None else None, det.get("error"), det.get("cause")])
    r = w.executions().get(exec_arn("m0", "e"))
    rec = None if r is None else [r.get("status"), r.get("output"), r.get("error")]
    v = judge(names, ii, o, g, rec)
    bad = v not in (None, "unjudged")
    print(("REPRODUCED property=C01 " if bad else "not reproduced ") + repr(v))
    return 1 if bad else 0
