"""C19 - work is routed to the right queue/instance; messages map faithfully to AMQP (affinity exploration on 1-3 instances,
address-string / message-field enumeration through both transports, differential oracle between the transports)."""
import json, copy, inspect, itertools, multiprocessing
from . import common
from harness import corpus

PROP = "C19"
MONITORS = ("M-route", "M-life", "M-ref", "M-child")

def affinity_scenarios(tier):
    out = []
    seq = {s["name"]: s for s in corpus.seq_family(tier)}
    ok = {s["name"]: s for s in corpus.fanout_ok_family(tier)}
    ch = {s["name"]: s for s in corpus.child_family(tier)}
    base = [seq["seq-two-exec-one-machine"], seq["seq-retry-ok"], seq["seq-async-child"], ok["par-2x1"], ok["map-n2-mc1"], ch["child-sync-ok"], ch["token-success"], ch["child-sync-in-parallel"], ch["child-sdk-express-ok"], ch["child-sync2-ok"],
            seq["seq-unroutable-beside-blocked"], seq["seq-invoke-two-functions"], seq["seq-invoke-two-machines"], seq["seq-invoke-function-from-input"]]
    # acknowledgements of what is dropped (poison events) while another execution's deliveries are outstanding on the same channel
    by = {s["name"]: s for s in corpus.bystander_family(tier)}
    base += [by["by+poison-not-json"], by["by+poison-no-context"]] + ([by["by+poison-unknown-machine"], by["by+poison-json-array"]] if tier != "quick" else [])
    if tier != "quick":
        base += [seq["seq-wait-and-task"], seq["seq-catch"], seq["seq-timeout"], seq["seq-express"], ok["par-2x2"], ok["map-n2-mc0"], ok["par-in-map"], ok["par-invoke"],
                 ch["child-sync-fails-caught"], ch["child-sync-in-map"], ch["token-failure"], ch["token-duplicate"], ch["child-sdk-express-fails"], ch["token-rpc-reply-before-callback"]]
    # instances that are still starting up when the first start events arrive (first start of their ids: no per-instance queue exists yet);
    # start_asyncio is resumed confirmation by confirmation
    for s0, n in ((seq["seq-two-exec-one-machine"], 1), (ok["par-2x1"], 1), (seq["seq-two-exec-one-machine"], 2)):
        s = copy.deepcopy(s0)
        s["name"] = "%s@%dxslowstart" % (s0["name"], n); s["family"] = "%s@%dslow" % (s0["family"], n)
        s["instances"] = n; s["slow_start"] = "always"
        if n > 1:
            s["store"] = "redis"; s["post_bound"] = 2
        out.append(s)
    for s0 in base:
        for n in ((1, 2, 3) if tier != "quick" or s0["name"] in ("seq-two-exec-one-machine", "seq-async-child") else (1, 2)):
            for qt in (("classic", "quorum") if tier != "quick" or s0["name"] in ("seq-two-exec-one-machine", "child-sync-ok", "token-success") else ("classic",)):
                s = copy.deepcopy(s0)
                s["name"] = "%s@%dx%s" % (s0["name"], n, qt)
                s["family"] = "%s@%d" % (s0["family"], n)
                s["instances"] = n
                s["queue_type"] = qt
                s["start_via_api"] = True
                if n > 1:
                    s["store"] = "redis"
                out.append(s)
    return out

# ------------------------------------------------------------------------------------------------------
ADDRESSES = [
    # (role, address, expectation)
    ("consumer", 'q1', {"queue": ("q1", False, False, False, None), "consume": ("q1", False, None)}),
    ("consumer", 'q2; {"node": {"durable": true}}', {"queue": ("q2", True, False, False, None), "consume": ("q2", False, None)}),
    ("consumer", 'q3; {"node": {"auto-delete": true}}', {"queue": ("q3", False, False, True, None), "consume": ("q3", False, None)}),
    ("consumer", 'q4; {"node": {"x-declare": {"durable": true, "exclusive": true, "auto-delete": true}}}', {"queue": ("q4", True, True, True, None), "consume": ("q4", False, None)}),
    ("consumer", 'q5; {"node": {"durable": true, "x-declare": {"arguments": {"x-queue-type": "quorum"}}}}', {"queue": ("q5", True, False, False, {"x-queue-type": "quorum"}), "consume": ("q5", False, None)}),
    ("consumer", 'q6; {"node": {"x-declare": {"durable": true, "auto-delete": false}}, "link": {"x-subscribe": {"exclusive": true}}}', {"queue": ("q6", True, False, False, None), "consume": ("q6", True, None)}),
    ("consumer", 'q7; {"node": {"durable": true}, "link": {"x-subscribe": {"arguments": {"x-priority": 10}}}}', {"queue": ("q7", True, False, False, None), "consume": ("q7", False, {"x-priority": 10})}),
    ("consumer", 'q8; {"node": {"durable": true, "x-bindings": [{"exchange": "amq.match", "queue": "q8", "key": "data1", "arguments": {"x-match": "all", "a": "b"}}]}}',
     {"queue": ("q8", True, False, False, None), "binding": ("amq.match", "q8", "data1", {"x-match": "all", "a": "b"}), "consume": ("q8", False, None)}),
    ("consumer", 'amq.topic/sports', {"queue": ("<generated>", False, True, True, None), "binding": ("amq.topic", "<generated>", "sports", None), "consume": ("<generated>", False, None)}),
    ("consumer", 'amq.topic/news.#; {"link": {"x-declare": {"queue": "news-queue", "exclusive": false}}}', {"queue": ("news-queue", False, False, True, None), "binding": ("amq.topic", "news-queue", "news.#", None), "consume": ("news-queue", False, None)}),
    ("consumer", 'news-service/sports; {"node": {"x-declare": {"exchange": "news-service", "exchange-type": "topic"}}}',
     {"exchange": ("news-service", "topic", False, False), "queue": ("<generated>", False, True, True, None), "binding": ("news-service", "<generated>", "sports", None), "consume": ("<generated>", False, None)}),
    ("producer", 'pq1', {"publish": ("", "pq1")}),
    ("producer", 'amq.topic/weather', {"publish": ("amq.topic", "weather")}),
    ("producer", '{"node": {"x-declare": {"exchange": "ex1", "exchange-type": "topic", "durable": true}}}', {"exchange": ("ex1", "topic", True, False), "publish": ("ex1", "subj")}),
    ("producer", '; {"node": {"x-declare": {"exchange": "ex2", "exchange-type": "fanout", "auto-delete": true}}}', {"exchange": ("ex2", "fanout", False, True), "publish": ("ex2", "subj")}),
    ("producer", '', {"publish": ("", "subj")}),
]

EXPIRATIONS = [None, 0, 5, 5.7, "5", "-1", -1, "abc", "", "inf", "nan", 1e3, "1e3", True]

def _mods(transport):
    from harness import world
    world.install()
    import importlib
    if transport == "asyncio":
        return importlib.import_module("asl_workflow_engine.amqp_0_9_1_messaging_asyncio")
    return importlib.import_module("asl_workflow_engine.amqp_0_9_1_messaging")

class Link(object):
    """A connection + session of the real messaging module over a fresh simulated broker."""
    def __init__(self, transport, broker=None):
        from harness.world import Clock
        from pika._core import Broker
        import pika
        self.transport = transport
        self.mod = _mods(transport)
        if broker is None:
            broker = Broker(Clock())
        self.broker = broker
        Broker.CURRENT = broker
        broker.record_sites = False
        broker.blocking_driver = lambda conn: None
        self.conn = self.mod.Connection("amqp://localhost:5672")
        self.run(self.conn.open())
        self.session = self.run(self.conn.session())

    def run(self, x):
        if inspect.iscoroutine(x):
            try:
                x.send(None)
            except StopIteration as e:
                return e.value
            raise RuntimeError("coroutine suspended")
        return x

    def consumer(self, addr):
        return self.run(self.session.consumer(addr))

    def producer(self, addr):
        return self.run(self.session.producer(addr))

    def listen(self, cons, fn):
        return self.run(cons.set_message_listener(fn))

    def pump(self):
        """Deliver everything that is deliverable."""
        b = self.broker
        n = 0
        progress = True
        while progress:
            progress = False
            for qn in sorted(b.queues):
                cs = b.deliverable(qn)
                if cs:
                    fn = b.take(qn, cs[0])
                    fn(); n += 1; progress = True
        return n

def declared_view(broker, since):
    out = {}
    gen = None
    for d in broker.declared[since:]:
        if d[0] == "queue":
            name = d[1]
            if name.startswith("amq.gen-"):
                gen = name; name = "<generated>"
            out["queue"] = (name, d[2], d[3], d[4], d[5])
        elif d[0] == "exchange":
            out["exchange"] = (d[1], d[2], d[3], d[4])
        elif d[0] == "binding":
            out["binding"] = (d[1], "<generated>" if d[2] == gen else d[2], d[3], d[4])
        elif d[0] == "consume":
            out["consume"] = ("<generated>" if d[1] == gen else d[1], d[2], d[3])
    return out

def mapping_case(transport, role, addr, want):
    """-> None or detail"""
    try:
        ln = Link(transport)
        since = len(ln.broker.declared)
        if role == "consumer":
            c = ln.consumer(addr)
            ln.listen(c, lambda m: None)
            got = declared_view(ln.broker, since)
        else:
            p = ln.producer(addr)
            got = declared_view(ln.broker, since)
            m = ln.mod.Message("body")
            if want["publish"][1] == "subj":
                m.subject = "subj"
            n0 = len(ln.broker.oplog)
            ln.run(p.send(m))
            pubs = [o for o in ln.broker.oplog[n0:] if o["op"] == "publish"]
            got["publish"] = (pubs[0]["exchange"], pubs[0]["routing_key"]) if pubs else None
    except Exception as e:
        return "raised %s: %s" % (type(e).__name__, e)
    norm = lambda d: json.dumps({k: list(v) if isinstance(v, tuple) else v for k, v in d.items()}, sort_keys=True)
    if norm(got) != norm(want):
        return "declared/published %s, the address describes %s" % (norm(got), norm(want))
    return None

def message_case(transport, expiration, fields):
    """Send one message through Producer.send and receive it through a Consumer: -> None or detail"""
    try:
        ln = Link(transport)
        c = ln.consumer('mq; {"node": {"durable": true}}')
        got = []
        ln.listen(c, got.append)
        p = ln.producer("mq")
        kw = copy.deepcopy(fields)
        m = ln.mod.Message(kw.pop("body"), expiration=expiration, **kw)
        n0 = len(ln.broker.oplog)
        ln.run(p.send(m))
        pubs = [o for o in ln.broker.oplog[n0:] if o["op"] == "publish"]
        ln.pump()
    except Exception as e:
        return "raised %s: %s" % (type(e).__name__, e)
    if len(pubs) != 1:
        return "sent 1 message, %d frames on the wire" % len(pubs)
    wire = pubs[0]["expiration"]
    if expiration is None:
        if wire is not None:
            return "expiration %r on the wire for None" % (wire,)
    else:
        if not (isinstance(wire, str) and wire.isdigit()):
            return "expiration %r on the wire is not a non-negative integer" % (wire,)
        want = None
        try:
            f = float(expiration)
            if f == f and abs(f) != float("inf"):
                want = max(0, int(f))
        except (TypeError, ValueError):
            pass
        if want is not None and int(wire) != want:
            return "expiration %r on the wire for %r" % (wire, expiration)
        if int(wire) == 0:
            return None if not got else "a message with TTL 0 was queued"    # the simulated broker drops TTL-0 messages nobody is waiting for
    if len(got) != 1:
        return "sent 1 message, received %d" % len(got)
    r = got[0]
    body = fields["body"]
    bad = []
    if r.body != (body.encode() if isinstance(body, str) else body): bad.append("body %r" % (r.body,))
    if r.correlation_id != fields.get("correlation_id"): bad.append("correlation_id %r" % (r.correlation_id,))
    if r.reply_to != fields.get("reply_to"): bad.append("reply_to %r" % (r.reply_to,))
    if r.subject != (fields.get("subject") or None) and not (fields.get("subject") is None and r.subject is None): bad.append("subject %r" % (r.subject,))
    want_props = dict(fields.get("properties") or {})
    got_props = {k: v for k, v in (r.properties or {}).items() if k != "x-amqp-0-9-1.subject"}
    if got_props != want_props: bad.append("properties %r" % (got_props,))
    if r.durable != fields.get("durable", True): bad.append("durable %r" % (r.durable,))
    if r.priority != fields.get("priority"): bad.append("priority %r" % (r.priority,))
    if r.message_id != fields.get("message_id"): bad.append("message_id %r" % (r.message_id,))
    if r.content_type != fields.get("content_type"): bad.append("content_type %r" % (r.content_type,))
    if expiration is None:
        if r.expiration is not None: bad.append("expiration %r for None" % (r.expiration,))
    else:
        if not (isinstance(r.expiration, str) and r.expiration.isdigit()): bad.append("expiration %r is not a non-negative integer" % (r.expiration,))
        else:
            try:
                f = float(expiration)
                if f == f and f not in (float("inf"), float("-inf")) and f >= 0 and int(r.expiration) != int(f): bad.append("expiration %r for %r" % (r.expiration, expiration))
            except (TypeError, ValueError):
                pass
    return "; ".join(bad) if bad else None

def ack_case(transport):
    """Acknowledging a message acknowledges that delivery and no other."""
    try:
        ln = Link(transport)
        c = ln.consumer("aq")
        got = []
        ln.listen(c, got.append)
        p = ln.producer("aq")
        for i in range(3):
            ln.run(p.send(ln.mod.Message("m%d" % i)))
        ln.pump()
        ch = ln.session.channel
        before = sorted(ch.unacked)
        got[1].acknowledge(multiple=False)
        after = sorted(ch.unacked)
        if len(before) != 3 or after != [before[0], before[2]]:
            return "unacked tags %r -> %r after acknowledging the second message" % (before, after)
        # a message the broker returned (mandatory, unroutable) is not a delivery: acknowledging it acknowledges nothing
        returned = []
        pm = ln.producer("no-such-queue")
        ln.run(pm.set_return_callback(returned.append)) if hasattr(pm, "set_return_callback") else None
        ln.run(pm.send(ln.mod.Message("lost", mandatory=True)))
        for chan in ln.conn.connection.channels if hasattr(ln.conn, "connection") else []:
            while getattr(chan, "pending_returns", None):
                method, props, body, _ = chan.pending_returns.pop(0)
                for cb in list(chan._on_return):
                    cb(chan, method, props.copy(), body)
        if len(returned) != 1:
            return "a mandatory message to a queue that does not exist produced %d returned messages" % len(returned)
        returned[0].acknowledge(multiple=False)
        if sorted(ch.unacked) != after or not ch.is_open:
            return "acknowledging a returned message changed the unacked deliveries %r -> %r (channel open %s)" % (after, sorted(ch.unacked), ch.is_open)
        got[0].acknowledge(multiple=False); got[2].acknowledge(multiple=False)
        if ch.unacked or not ch.is_open:
            return "tags left %r, channel open %s" % (sorted(ch.unacked), ch.is_open)
    except Exception as e:
        return "raised %s: %s" % (type(e).__name__, e)
    return None

def field_combos():
    out = []
    for props in (None, {"a": 1, "b": "x"}):
        for subject in (None, "mq"):
            for cid, rt in ((None, None), ("c-1", "reply.q")):
                for durable in (True, False):
                    for prio in (None, 3):
                        out.append({"body": "{\"k\": 1}", "properties": props, "subject": subject, "correlation_id": cid, "reply_to": rt, "durable": durable, "priority": prio,
                                    "message_id": "m-1" if cid else None, "content_type": "application/json" if props else None})
    out.append({"body": b"\x00\x01bytes"})
    out.append({"body": ""})
    return out

def _mapping_job(args):
    kind = args[0]
    if kind == "addr":
        return mapping_case(args[1], args[2], args[3], args[4])
    if kind == "msg":
        return message_case(args[1], args[2], args[3])
    return ack_case(args[1])

def canonical_oplog(sc, transport):
    """Normalised publish / ack / declaration sequence of the canonical run (ids renamed by first occurrence)."""
    from harness.world import World
    from harness.fingerprint import UUID_RE
    w = World(dict(sc, transport=transport))
    w.run()
    # what each transport declares while it starts up is compared as a set (the order in which an instance sets up its consumers is not
    # behaviour: the asyncio start-up subscribes to its own queue before the shared one, see the fix recorded for C03); the traffic of
    # the run itself is compared in order
    rows = sorted(([list(d) for d in w.broker.declared]), key=lambda r: json.dumps(r, sort_keys=True, default=str))
    for op in w.broker.oplog[w.setup_ops:]:
        if op["op"] in ("publish", "ack", "deliver"):
            rows.append([op["op"], op.get("queue") or op.get("routing_key"), op.get("exchange"), op.get("message_id"), op.get("correlation_id"), op.get("reply_to"), op.get("expiration"),
                         op.get("mandatory"), (op.get("body") or b"").decode("utf8", "replace") if op["op"] == "publish" else None])
    outs = [[n["key"], n["body"]["detail"].get("status"), n["body"]["detail"].get("output")] for n in w.notes]
    w.close()
    s = json.dumps([rows, outs], sort_keys=True, default=str)
    names = {}
    s = UUID_RE.sub(lambda mo: names.setdefault(mo.group(0), "U%d" % len(names)), s)
    s = s.replace("conn", "c")
    return json.loads(s)

def _diff_job(sc):
    a = canonical_oplog(sc, "asyncio")
    b = canonical_oplog(sc, "blocking")
    if a != b:
        for i, (x, y) in enumerate(zip(a[0], b[0])):
            if x != y:
                return "first difference at operation %d: asyncio %s, blocking %s" % (i, json.dumps(x)[:200], json.dumps(y)[:200])
        return "different lengths / outcomes: asyncio %d ops %s, blocking %d ops %s" % (len(a[0]), a[1], len(b[0]), b[1])
    return None

def _dup_job(qt):
    """A second instance with the same instance id must be refused (exclusive consumer)."""
    from harness.world import World
    w = World({"name": "dup", "machines": {}, "instances": 2, "instance_ids": ["i1", "i1"], "queue_type": qt})
    alive = [i.alive for i in w.instances]
    q = w.broker.queues.get("asl_workflow_events" + ("-qq" if qt == "quorum" else "") + "-i1")
    ncons = len(q.consumers) if q else None
    w.close()
    if alive != [True, False] or ncons != 1:
        return "instances alive %r, consumers on the instance queue %r" % (alive, ncons)
    return None

def run(tier, seed):
    scs = affinity_scenarios(tier)
    cr = common.engine_check(PROP, scs, MONITORS, tier, seed, monset="route", bound_for=lambda sc: sc.get("post_bound"))
    jobs = []
    for transport in ("asyncio", "blocking"):
        for role, addr, want in ADDRESSES:
            jobs.append(("addr", transport, role, addr, want))
        for exp in EXPIRATIONS:
            jobs.append(("msg", transport, exp, {"body": "x", "correlation_id": "c", "reply_to": "r"}))
        for f in field_combos():
            jobs.append(("msg", transport, 5, f))
        jobs.append(("ack", transport))
    diff = [s for s in corpus.handler_coverage_corpus() if s["name"] in ("task-next", "task-error-caught", "task-retry-then-ok", "task-timeout", "task-unroutable", "wait-next", "parallel-next", "map-maxconc", "choice-default", "fail")]
    diff += [s for s in corpus.child_family(tier) if s["name"] in ("child-sync-ok", "child-async")]
    ctx = multiprocessing.get_context("fork")
    with ctx.Pool(common.JOBS) as pool:
        outs = pool.map(_mapping_job, jobs, chunksize=4)
        douts = pool.map(_diff_job, diff, chunksize=1)
        dup = pool.map(_dup_job, ["classic", "quorum"])
    for j, o in zip(jobs, outs):
        if o:
            if j[0] == "addr":
                sig = "mapping|address|%s|%s" % (j[1], j[3][:40])
            elif j[0] == "msg":
                sig = "mapping|message|%s|expiration=%r" % (j[1], j[2]) if j[3].get("body") == "x" else "mapping|message-fields|%s" % j[1]
            else:
                sig = "mapping|acknowledge|%s" % j[1]
            cr.add(sig, "%s transport, %s: %s" % (j[1], json.dumps(j[2:], default=repr)[:200], o), {"kind": "mapping", "property": PROP, "signature": sig, "job": json.loads(json.dumps(j, default=repr))}, size=len(str(j)))
    for s, o in zip(diff, douts):
        if o:
            sig = "transports-differ|%s" % s["name"]
            cr.add(sig, "scenario %s: %s" % (s["name"], o), {"kind": "diff", "property": PROP, "signature": sig, "scenario": s}, size=1)
    for qt, o in zip(["classic", "quorum"], dup):
        if o:
            sig = "duplicate-instance-id|%s" % qt
            cr.add(sig, "two instances with the same id (%s queues): %s" % (qt, o), {"kind": "dup", "property": PROP, "signature": sig, "queue_type": qt}, size=1)
    cr.coverage["mapping_cases"] = len(jobs)
    cr.coverage["transport_differential_scenarios"] = len(diff)
    cr.coverage["explanation"] = ("affinity: executions of the corpus on 1-3 engine instances sharing one broker (and the simulated Redis store), classic and quorum queue names; every assignment of start events to instances "
                                  "is explored (closed on one instance, deviation bound on several), M-route checks every delivery and every RPC request; mapping: %d address strings and all message field / "
                                  "expiration combinations through the real Producer / Consumer / Message of both transports; the canonical run of %d scenarios on the asyncio and on the blocking transport must "
                                  "produce identical broker traffic" % (len(ADDRESSES), len(diff)))
    return cr

def replay(rp):
    if rp.get("kind") == "engine":
        from . import replay as R
        return R.engine_replay(rp)
    if rp["kind"] == "mapping":
        j = rp["job"]
        print(_mapping_job(tuple(j)))
        return 1
    if rp["kind"] == "diff":
        o = _diff_job(rp["scenario"]); print(o)
        return 1 if o else 0
    o = _dup_job(rp["queue_type"]); print(o)
    return 1 if o else 0
