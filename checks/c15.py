"""C15 - child executions and task-token callbacks complete exactly their launching task."""
from . import common
from harness import corpus
PROP = "C15"
MONITORS = ("M-child", "M-life", "M-drain", "M-carry")
def scenarios(tier):
    return corpus.child_family(tier)
def run(tier, seed):
    return common.engine_check(PROP, scenarios(tier), MONITORS, tier, seed, monset="child")
