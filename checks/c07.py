"""C07 - Retry and Catch follow the States Language error-handling policy (enumerated policies x outcome sequences,
run through the real engine on the virtual clock; RPC request instants, final status/output compared with ref/asl.py)."""
import json, copy, itertools, multiprocessing
from . import common
from ref import asl as RA

PROP = "C07"
FA = "arn:aws:rpcmessage:local::function:"

def retriers(tier):
    out = [None]
    full = tier == "thorough"
    ee1 = [["E1"], ["E2"], ["States.ALL"], ["States.Timeout"]] if full else [["E1"], ["States.ALL"], ["States.Timeout"]]
    for ee in ee1:
        for iv in (1, 3):
            for mx in (0, 1, 2, None):
                for bo in ((1.0, 2.0, None) if full else (1.0, None)):
                    r = {"ErrorEquals": ee, "IntervalSeconds": iv}
                    if mx is not None: r["MaxAttempts"] = mx
                    if bo is not None: r["BackoffRate"] = bo
                    out.append([r])
    pairs = [(["E1"], ["E2"]), (["E2"], ["E1"]), (["E1"], ["States.ALL"]), (["E2"], ["States.ALL"]), (["E1"], ["E1"]), (["States.Timeout"], ["States.ALL"])]
    for a, b in pairs:
        for m1, m2 in itertools.product((1, 2), repeat=2):
            for b1, b2 in (itertools.product((1.0, 2.0), repeat=2) if full else [(2.0, 1.0)]):
                out.append([{"ErrorEquals": a, "IntervalSeconds": 1, "MaxAttempts": m1, "BackoffRate": b1},
                            {"ErrorEquals": b, "IntervalSeconds": 3, "MaxAttempts": m2, "BackoffRate": b2}])
    if tier == "thorough":
        for a, b, c in [(["E1"], ["E2"], ["States.ALL"]), (["E2"], ["States.Timeout"], ["E1"])]:
            for ms in itertools.product((1, 2), repeat=3):
                out.append([{"ErrorEquals": a, "IntervalSeconds": 1, "MaxAttempts": ms[0], "BackoffRate": 2.0},
                            {"ErrorEquals": b, "IntervalSeconds": 3, "MaxAttempts": ms[1], "BackoffRate": 1.0},
                            {"ErrorEquals": c, "IntervalSeconds": 5, "MaxAttempts": ms[2], "BackoffRate": 2.0}])
    return out

def catchers():
    return [None,
            [{"ErrorEquals": ["E1"], "Next": "K", "ResultPath": "$.err"}],
            [{"ErrorEquals": ["States.ALL"], "Next": "K"}],
            [{"ErrorEquals": ["E2"], "Next": "K", "ResultPath": None}],
            [{"ErrorEquals": ["E1"], "Next": "K", "ResultPath": "$.e1"}, {"ErrorEquals": ["States.ALL"], "Next": "K2", "ResultPath": "$.all"}]]

def outcome_seqs(tier):
    base = ["E1", "E2", "T"]
    out = []
    maxlen = 3 if tier == "quick" else 4
    for n in range(0, maxlen + 1):
        for seq in itertools.product(base, repeat=n):
            out.append(list(seq) + ["ok"])
            if n:
                out.append(list(seq))
    out += [["R"], ["R", "ok"], ["E1", "R"], ["X"], ["E1", "X"], ["E1", "E1", "E1", "E1", "ok"], ["E1", "E2", "E1", "E2", "ok"]]
    return out

def to_outcomes(seq):
    m = {"E1": ["err", "E1", "boom1"], "E2": ["err", "E2", "boom2"], "T": ["none"], "ok": ["ok", {"done": 1}], "B": ["okstr", 100000],
         "R": ["err", "States.Runtime", "rt"], "X": ["err", "Task.Terminated", "tt"]}
    return [m[s] for s in seq]

def machine(kind, retry, catch, fname):
    t = {"Type": "Task", "Resource": FA + fname, "TimeoutSeconds": 4}
    follow = {"Type": "Task", "Resource": FA + "g", "Retry": [{"ErrorEquals": ["E1"], "IntervalSeconds": 2, "MaxAttempts": 1, "BackoffRate": 1.0}], "Next": "W"}
    states = {}
    hs = {}
    if retry: hs["Retry"] = retry
    if catch: hs["Catch"] = catch
    # (nested kinds: the Task inside the fan-out has a Retry of its own; its counter must not leak into the fan-out's retriers)
    inner_retry = [{"ErrorEquals": ["E1", "E2"], "IntervalSeconds": 1, "MaxAttempts": 1, "BackoffRate": 1.0}]
    if kind.endswith("-nested"):
        t = dict(t, Retry=inner_retry)
        kind = kind[:-len("-nested")]
    exec_timeout = 200
    if kind.endswith("-exectimeout"):
        # the *execution* runs out of time (machine-level TimeoutSeconds) while the task is in flight: unrecoverable - no Retrier, no
        # Catcher (States.ALL, States.Timeout or by name) of the state or of the enclosing fan-out applies
        kind = kind[:-len("-exectimeout")]
        t = dict(t, TimeoutSeconds=20)
        exec_timeout = 3
    if kind == "task-exitquota":
        # the state fails while *exiting*: its merged output (a 200000-character member of the input plus a 100000-character result
        # at ResultPath) exceeds the data quota; that error is retriable / catchable like any other and counts against the same budget
        states["G"] = {"Type": "Pass", "Result": "x" * 200000, "ResultPath": "$.blob", "Next": "T"}
        states["T"] = dict(t, ResultPath="$.r", Next="N", **hs)
    elif kind == "task":
        states["T"] = dict(t, Next="N", **hs)
    elif kind == "parallel":
        states["T"] = dict({"Type": "Parallel", "Next": "N", "Branches": [{"StartAt": "TI", "States": {"TI": dict(t, End=True)}},
                                                                        {"StartAt": "TP", "States": {"TP": {"Type": "Pass", "Result": "p", "End": True}}}]}, **hs)
    elif kind == "mapmc":
        # two batches of one; only the second item's task is scripted to fail (the first item echoes at once)
        states["T"] = dict({"Type": "Map", "Next": "N", "ItemsPath": "$.pair", "MaxConcurrency": 1,
                            "ItemProcessor": {"StartAt": "TC", "States": {
                                "TC": {"Type": "Choice", "Choices": [{"Variable": "$", "NumericEquals": 1, "Next": "TP"}], "Default": "TI"},
                                "TP": {"Type": "Pass", "End": True}, "TI": dict(t, End=True)}}}, **hs)
    elif kind == "map-in-mapmc":
        # the retried state is a Map that sits in an iteration of the *second* MaxConcurrency batch of an outer Map (no Catch: its targets are top-level states)
        inner = dict({"Type": "Map", "End": True, "ItemsPath": "$", "ItemProcessor": {"StartAt": "TI", "States": {"TI": dict(t, End=True)}}}, **{k: v for k, v in hs.items() if k == "Retry"})
        states["T"] = {"Type": "Map", "Next": "N", "ItemsPath": "$.nested", "MaxConcurrency": 1,
                       "ItemProcessor": {"StartAt": "TC", "States": {
                           "TC": {"Type": "Choice", "Choices": [{"Variable": "$", "NumericEquals": 1, "Next": "TP"}], "Default": "TM"},
                           "TP": {"Type": "Pass", "End": True}, "TM": inner}}}
    else:
        states["T"] = dict({"Type": "Map", "Next": "N", "ItemsPath": "$.items", "ItemProcessor": {"StartAt": "TI", "States": {"TI": dict(t, End=True)}}}, **hs)
    states["N"] = dict(follow)
    states["K"] = dict(follow)
    states["K2"] = {"Type": "Pass", "Parameters": {"k2.$": "$"}, "End": True}
    states["W"] = {"Type": "Pass", "Parameters": {"wrapped.$": "$"}, "End": True}
    return {"StartAt": "G" if "G" in states else "T", "States": states, "TimeoutSeconds": exec_timeout}

def cases(tier):
    out = []
    rs, cs, os_ = retriers(tier), catchers(), outcome_seqs(tier)
    for r in rs:
        for c in cs:
            for o in os_:
                out.append(("task", r, c, o))
    single = [r for r in rs if r is None or len(r) == 1][::3]
    for kind in ("parallel", "map", "mapmc"):
        for r in single:
            for c in cs[:3]:
                for o in os_[::2]:
                    out.append((kind, r, c, o))
    for r in single:
        for o in os_[::2]:
            out.append(("map-in-mapmc", r, None, o))
    quota_retriers = [None, [{"ErrorEquals": ["States.DataLimitExceeded"], "IntervalSeconds": 1, "MaxAttempts": 2, "BackoffRate": 2.0}],
                      [{"ErrorEquals": ["States.ALL"], "IntervalSeconds": 3, "MaxAttempts": 1}],
                      [{"ErrorEquals": ["E1"], "IntervalSeconds": 1, "MaxAttempts": 1}, {"ErrorEquals": ["States.DataLimitExceeded"], "IntervalSeconds": 2, "MaxAttempts": 2, "BackoffRate": 1.0}]]
    for r in quota_retriers:
        for c in (None, [{"ErrorEquals": ["States.DataLimitExceeded"], "Next": "K", "ResultPath": None}]):
            for o in (["B", "ok"], ["B", "B", "ok"], ["B", "B", "B", "ok"], ["B"], ["E1", "B", "ok"], ["ok"]):
                out.append(("task-exitquota", r, c, o))
    tmo_handlers = [[{"ErrorEquals": ["States.ALL"], "IntervalSeconds": 1, "MaxAttempts": 2}], [{"ErrorEquals": ["States.Timeout"], "IntervalSeconds": 1, "MaxAttempts": 1}], None]
    tmo_catchers = [[{"ErrorEquals": ["States.ALL"], "Next": "K"}], [{"ErrorEquals": ["States.Timeout"], "Next": "K", "ResultPath": "$.e"}], None]
    for kind in ("task-exectimeout", "parallel-exectimeout", "map-exectimeout", "parallel-nested-exectimeout"):
        for r in tmo_handlers:
            for c in tmo_catchers:
                for o in (["T"], ["E1", "T"]):
                    out.append((kind, r, c, o))
    for kind in ("parallel-nested", "map-nested"):
        for r in single:
            for c in cs[:2]:
                for o in os_[::3]:
                    out.append((kind, r, c, o))
    return out

INPUT = {"in": 1, "items": [7], "pair": [1, 2], "nested": [1, [7]]}

def workers_for(i, o):
    return {"f%d" % i: {"*": to_outcomes(o)}}

RUNAWAY_STEPS = 3000     # no case needs more than a few hundred steps; a change that retries for ever must not hang the check

def _batch(args):
    tier, lo, hi = args
    cs = cases(tier)[lo:hi]
    res = []
    pos = 0
    while pos < len(cs):
        part, done = _run_world(cs[pos:], pos)
        res.extend(part)
        pos += done
    return res

def _run_world(cs, base):
    """Run the cases one after the other in one World; stop at a runaway execution (its result is None: never terminal)."""
    from harness.world import World, exec_arn, EPOCH
    sc = {"name": "c07-batch", "machines": {}, "starts": [], "record_sites": False, "horizon": 1e9, "workers": {}}
    # g must fail on its first request of *each* execution: give every machine its own follow-up function
    for k, (kind, r, c, o) in enumerate(cs):
        idx = base + k
        d = machine(kind, r, c, "f%d" % idx)
        d = json.loads(json.dumps(d).replace(FA + 'g"', FA + 'g%d"' % idx))
        sc["machines"]["m%d" % idx] = {"definition": d}
        sc["workers"]["f%d" % idx] = {"*": to_outcomes(o)}
        sc["workers"]["g%d" % idx] = {"*": [["err", "E1", "gfail"], ["ok", "g-ok"]]}
        sc["starts"].append({"machine": "m%d" % idx, "name": "e", "input": INPUT, "after_quiet": True})
    w = World(sc)
    since = 0
    runaway = False
    while True:
        en = w.enabled()
        w.enabled_cache = en
        if not en:
            break
        since = 0 if en[0][0] == "api" else since + 1
        if since > RUNAWAY_STEPS:
            runaway = True
            break
        w.step(en[0])
    ndone = len(cs) if not runaway else w.api_pos
    res = []
    term = {}
    starts = {}
    for n in w.notes:
        det = n["body"]["detail"]
        if det["status"] == "RUNNING":
            starts[det["executionArn"]] = n["time"]
        else:
            term.setdefault(det["executionArn"], []).append([det["status"], json.loads(det["output"]) if det.get("output") is not None else None, det.get("error"), n["time"]])
    for k in range(ndone):
        idx = base + k
        arn = exec_arn("m%d" % idx, "e")
        t0 = starts.get(arn, 0)
        ft = [round(t - t0, 6) for (_, _, _, t) in w.workers["f%d" % idx].requests][:50]
        gt = [round(t - t0, 6) for (_, _, _, t) in w.workers["g%d" % idx].requests][:50]
        tt = term.get(arn)
        if tt:
            for x in tt:
                x[3] = round(x[3] - t0, 6)
        if runaway and k == ndone - 1:
            tt = None
        res.append((tt, ft, gt))
    w.close()
    return res, max(ndone, 1)

class SharedCountInterp(RA.Interp):
    """Defect model: one RetryCount per state, shared by all of its retriers (instead of one counter per retrier)."""
    def with_handlers(self, name, st, raw, body, ctx_state):
        shared = [0]
        while True:
            try:
                return body(), None
            except RA.StateError as e:
                err = e.error
                if err in RA.UNRECOVERABLE:
                    raise
                retried = False
                for i, r in enumerate(st.get("Retry") or []):
                    if self.matches(r["ErrorEquals"], err):
                        n = shared[0]
                        if n < r.get("MaxAttempts", 3):
                            self.clock += r.get("IntervalSeconds", 1) * (r.get("BackoffRate", 2.0) ** n)
                            shared[0] = n + 1
                            retried = True
                        break
                if retried:
                    self.check_exec_timeout()
                    continue
                for c in st.get("Catch") or []:
                    if self.matches(c["ErrorEquals"], err):
                        eo = {"Error": err}
                        if e.cause:
                            eo["Cause"] = e.cause
                        return self.place(raw, eo, c.get("ResultPath", "$")), c["Next"]
                raise

def ref_case(idx, kind, r, c, o, shared=False):
    d = machine(kind, r, c, "f")
    d = json.loads(json.dumps(d).replace(FA + 'g"', FA + 'g0"'))
    tasks = RA.ScriptedTasks({"f": {"*": to_outcomes(o)}, "g0": {"*": [["err", "E1", "gfail"], ["ok", "g-ok"]]}})
    ctx = {"Execution": {"Input": copy.deepcopy(INPUT), "Name": "e"}}
    if shared:
        it = SharedCountInterp(d, tasks, ctx, exec_timeout=None)
        o_ = it.out
        try:
            data = it.run_machine(d, copy.deepcopy(INPUT))
            o_.status, o_.output = "SUCCEEDED", data
        except RA.StateError as e:
            o_.status, o_.error = "FAILED", ("States.Timeout" if e.error == "States.ExecutionTimeout" else e.error)
        o_.end_time = it.clock
        out = o_
    else:
        out = RA.run(d, copy.deepcopy(INPUT), tasks, context=ctx)
    ft = [round(t, 6) for (n, b, p, t) in out.task_log if n in ("T", "TI")]
    gt = [round(t, 6) for (n, b, p, t) in out.task_log if n in ("N", "K")]
    return out, ft, gt

def agree(tt, ft, gt, ref):
    out, rft, rgt = ref
    if not tt or len(tt) != 1:
        return False
    g = tt[0]
    if g[0] != out.status:
        return False
    from .c01 import loose_eq
    if out.status == "SUCCEEDED":
        if not loose_eq(g[1], out.output):
            return False
    elif g[2] != out.error:
        return False
    return ft == rft and gt == rgt and abs(g[3] - out.end_time) < 1e-6

def run(tier, seed):
    cr = common.CheckResult(PROP)
    cs = cases(tier)
    n = len(cs)
    step = 200
    chunks = [(tier, lo, min(n, lo + step)) for lo in range(0, n, step)]
    ctx = multiprocessing.get_context("fork")
    with ctx.Pool(common.JOBS) as pool:
        outs = pool.map(_batch, chunks, chunksize=1)
    got = [g for o in outs for g in o]
    judged = unj = 0
    nontrivial = 0
    for idx, ((kind, r, c, o), (tt, ft, gt)) in enumerate(zip(cs, got)):
        try:
            ref = ref_case(idx, kind, r, c, o)
        except RA.Unjudged:
            unj += 1
            continue
        judged += 1
        if len(ref[1]) > 1:
            nontrivial += 1
        if agree(tt, ft, gt, ref):
            continue
        cls = "policy-mismatch"
        if kind in ("parallel", "map", "mapmc", "map-in-mapmc", "parallel-nested", "map-nested") and "X" in o and not tt:
            # the worker itself reports the reserved name Task.Terminated from inside a branch
            pos = o.index("X")
            cls = "worker-reported-Task.Terminated-in-fanout-never-ends"
        try:
            alt = ref_case(idx, kind, r, c, o, shared=True)
            if cls == "policy-mismatch" and r and len(r) > 1 and agree(tt, ft, gt, alt):
                cls = "retry-count-shared-between-retriers"
        except RA.Unjudged:
            pass
        detail = "%s Retry=%s Catch=%s outcomes=%s: engine terminal=%r requests f@%r g@%r; reference %s requests f@%r g@%r end@%s" % (
            kind, json.dumps(r), json.dumps(c), o, tt, ft, gt, ref[0].key(), ref[1], ref[2], ref[0].end_time)
        sig = "c07|%s|%s" % (cls, kind) if cls != "policy-mismatch" else "c07|%s|%s|r%d|c%d" % (cls, kind, len(r or []), len(c or []))
        cr.add(sig, detail, {"kind": "policy", "property": PROP, "signature": sig, "case": [kind, r, c, o]}, size=len(json.dumps([r, c, o])))
    cr.coverage = {
        "evaluations": n, "distinct_nontrivial": nontrivial,
        "rule": "retrier lists of length 0-2 (3 in thorough) over ErrorEquals {E1,E2,States.ALL,States.Timeout} x IntervalSeconds {1,3} x MaxAttempts {0,1,2,absent} x BackoffRate {1,2,absent}; "
                "catcher lists of length 0-2 with ResultPath {absent, $.x, null}; outcome sequences of length <= %d over {E1, E2, time-out} (+ States.Runtime / Task.Terminated witnesses) then success or not; "
                "retried state Task (all) and Parallel / Map (subset); successor and catch-target Tasks with their own retrier witness counter leaks. Observed: RPC request instants on the virtual clock, "
                "terminal status/output and instant. non-trivial = at least one retry happened in the reference" % (3 if tier == "quick" else 4),
        "judged": judged, "unjudged": unj,
        "samples": [{"kind": cs[5][0], "Retry": cs[5][1], "Catch": cs[5][2], "outcomes": cs[5][3]}, {"kind": cs[n // 2][0], "Retry": cs[n // 2][1], "Catch": cs[n // 2][2], "outcomes": cs[n // 2][3]}],
        "exhaustive": True,
    }
    cr.assumptions = ["reference interpreter ref/asl.py (retry/catch rules from the States Language specification)"] + common.ASSUME_SIM
    return cr

def replay(rp):
    kind, r, c, o = rp["case"]
    from harness.world import World, exec_arn
    d = machine(kind, r, c, "f0")
    d = json.loads(json.dumps(d).replace(FA + 'g"', FA + 'g0"'))
    sc = {"name": "c07-replay", "machines": {"m0": {"definition": d}}, "horizon": 1e9,
          "workers": {"f0": {"*": to_outcomes(o)}, "g0": {"*": [["err", "E1", "gfail"], ["ok", "g-ok"]]}},
          "starts": [{"machine": "m0", "name": "e", "input": INPUT}]}
    w = World(sc); w.run()
    tt = []
    t0 = 0
    for n in w.notes:
        det = n["body"]["detail"]
        if det["status"] == "RUNNING":
            t0 = n["time"]
        else:
            tt.append([det["status"], json.loads(det["output"]) if det.get("output") is not None else None, det.get("error"), round(n["time"] - t0, 6)])
    ft = [round(t - t0, 6) for (_, _, _, t) in w.workers["f0"].requests]
    gt = [round(t - t0, 6) for (_, _, _, t) in w.workers["g0"].requests]
    ref = ref_case(0, kind, r, c, o)
    ok = agree(tt, ft, gt, ref)
    print(("not reproduced" if ok else "REPRODUCED property=C07") + ": engine %r f@%r g@%r; reference %s f@%r g@%r" % (tt, ft, gt, ref[0].key(), ref[1], ref[2]))
    return 0 if ok else 1
