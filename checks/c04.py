"""C04 - in-progress executions survive an engine crash and restart (fault enumeration over every crash point of the
canonical run of each scenario, then exhaustive exploration of what can happen after the restart)."""
import copy, json
from . import common
from harness import corpus
from harness.corpus import chain, Task, Pass, Wait, Parallel, Map, scenario, multi, OK, ERR

PROP = "C04"
MONITORS = ("M-crash",)

def scenarios(tier):
    out = []
    Z = ("Z", Pass(Parameters={"z.$": "$"}))
    add = lambda name, d, **kw: out.append(scenario(name, d, family=name, **kw))
    add("crash-pass-task-pass", chain(("A", Pass(Result=1, ResultPath="$.a")), ("T", Task("f1")), Z), workers={"f1": {"*": OK({"r": 1})}})
    add("crash-wait", chain(("A", Pass()), ("W", Wait(3)), Z))
    add("crash-task-retry", chain(("T", Task("f1", Retry=[{"ErrorEquals": ["E1"], "IntervalSeconds": 2, "MaxAttempts": 2}])), Z),
        workers={"f1": {"*": [["err", "E1", "x"], ["ok", 3]]}})
    add("crash-parallel-tasks", chain(("P", Parallel([chain(("A1", Task("fa"))), chain(("B1", Task("fb")))])), Z),
        workers={"fa": {"*": OK("a")}, "fb": {"*": OK("b")}})
    add("crash-map-maxconc", chain(("M", Map(chain(("I", Task("fi"))), MaxConcurrency=1)), Z), workers={"fi": {"*": [["echo"]]}}, input=[1, 2])
    add("crash-task-catch", chain(("T", Task("f1", Catch=[{"ErrorEquals": ["States.ALL"], "Next": "Z", "ResultPath": "$.err"}])), Z), workers={"f1": {"*": ERR()}})
    d = chain(("A", Pass()), ("W", Wait(3)), Z); d["TimeoutSeconds"] = 4
    add("crash-wait-tight-deadline", d, downtime=2)
    # a stale reply (its task timed out before the crash) parked in front of the reply of a task that was in flight at the crash
    mx = chain(("X", Task("fx", TimeoutSeconds=1, Catch=[{"ErrorEquals": ["States.ALL"], "Next": "ZX", "ResultPath": "$.e"}])), ("ZX", Pass()))
    my = chain(("Y", Task("fy", TimeoutSeconds=3)), ("ZY", Pass()))
    out.append(multi("crash-stale-reply", {"mx": {"definition": mx}, "my": {"definition": my}},
                     [{"machine": "mx", "name": "e1", "input": {}}, {"machine": "my", "name": "e2", "input": {}}],
                     workers={"fx": {"*": [["delay", ["ok", "late-x"]]]}, "fy": {"*": [["delay", ["ok", "y"]]]}},
                     schedule="timed", delay_budget=1, canonical_avoid=[["wreply", "fx"], ["wreply", "fy"]], crash_from=11))
    # a branch that has *finished* (its last event is held unacknowledged for the join) while a sibling is still outstanding
    add("crash-parallel-wait-end", chain(("P", Parallel([chain(("A1", Wait(1))), chain(("B1", Task("fb")))])), Z), workers={"fb": {"*": [["delay", ["ok", "b"]]]}})
    add("crash-parallel-pass-end", chain(("P", Parallel([chain(("A1", Pass(Result="a"))), chain(("B1", Wait(2)))])), Z))
    # branches of two states: a crash inside the first state's handler (successor published, own event not yet acknowledged) makes the
    # successor arrive twice at the join after the restart - results are recorded by position, so the join is neither early nor doubled
    add("crash-parallel-two-step-branches", chain(("P", Parallel([chain(("A1", Pass(Result="a1")), ("A2", Pass(Result="a2"))), chain(("B1", Pass(Result="b1")), ("B2", Task("fb")))])), Z),
        workers={"fb": {"*": [["delay", ["ok", "b2"]]]}}, midstep_preserves=True)
    add("crash-map-wait-items", chain(("M", Map(chain(("I", Wait(SecondsPath="$"))))), Z), input=[1, 2])
    add("crash-choice-succeed", chain(("C", corpus.Choice([{"Variable": "$.x", "NumericEquals": 1, "Next": "W"}], default="Z")), ("W", Wait(1, Next="S")), ("S", corpus.Succeed()), Z), input={"x": 1})
    # synchronous child executions: the pending request is keyed by the child's ARN, which must survive the restart
    SFN = "arn:aws:states:local::states:"
    child = chain(("CW", Wait(2)), ("CZ", Pass(Result="done", ResultPath="$.z")))
    for form, nm in (("startExecution.sync:2", "named"), ("startExecution.sync", "unnamed")):
        params = {"StateMachineArn": corpus.sm_arn("c"), "Input": {"from": "parent"}}
        if nm == "named":
            params["Name"] = "c1"
        parent = chain(("L", {"Type": "Task", "Resource": SFN + form, "Parameters": params, "ResultSelector": {"st.$": "$.Status", "out.$": "$.Output"}, "ResultPath": "$.child"}), Z)
        out.append(multi("crash-sync-child-%s" % nm, {"m": {"definition": parent}, "c": {"definition": child}}, [{"machine": "m", "name": "e1", "input": {"k": 1}}], family="crash-sync-child-%s" % nm))
    # an asynchronous child launch (states:startExecution): the Task completes with the child's ARN as soon as the child's start event is out;
    # a crash inside that handler (start event published, Task event not yet acknowledged) redelivers the Task event
    parent = chain(("L", {"Type": "Task", "Resource": SFN + "startExecution", "Parameters": {"StateMachineArn": corpus.sm_arn("c"), "Input": {"from": "parent"}, "Name": "c1"},
                          "ResultSelector": {"arn.$": "$.executionArn"}, "ResultPath": "$.child"}), Z)
    out.append(multi("crash-async-child", {"m": {"definition": parent}, "c": {"definition": chain(("CZ", Pass(Result="done", ResultPath="$.z")))}},
                     [{"machine": "m", "name": "e1", "input": {"k": 1}}], family="crash-async-child"))
    # a fan-out nested in a fan-out: after the restart an inner-level event can be handled before any outer-level event has rebuilt the outer join state
    # (quick: at most 2 deviations from the canonical order after the restart; thorough: closed)
    nb = 2 if tier == "quick" else None
    add("crash-par-in-par", chain(("P", Parallel([chain(("Q", Parallel([chain(("A1", Task("fa"))), chain(("B1", Pass(Result="b")))]))), chain(("C1", Task("fc")))])), Z),
        workers={"fa": {"*": [["delay", ["ok", "a"]]]}, "fc": {"*": OK("c")}}, post_bound=nb)
    add("crash-par-in-par-inner-first", chain(("P", Parallel([chain(("Q", Parallel([chain(("A1", Task("fa"))), chain(("B1", Pass(Result="b")))]))), chain(("C1", Task("fc")))])), Z),
        workers={"fa": {"*": OK("a")}, "fc": {"*": [["delay", ["ok", "c"]]]}}, post_bound=nb)
    add("crash-par-in-map", chain(("M", Map(chain(("Q", Parallel([chain(("A1", Task("fa"))), chain(("B1", Pass(Result="b")))]))))), Z),
        workers={"fa": {"*": [["echo"]]}}, input=[1, 2], post_bound=nb)
    if tier == "thorough":
        add("crash-parallel-2x2", chain(("P", Parallel([chain(("A1", Task("fa")), ("A2", Task("fa2"))), chain(("B1", Task("fb")), ("B2", Wait(1)))])), Z),
            workers={"fa": {"*": OK("a")}, "fb": {"*": OK("b")}, "fa2": {"*": OK("a2")}})
        add("crash-map-3", chain(("M", Map(chain(("I", Task("fi"))))), Z), workers={"fi": {"*": [["echo"]]}}, input=[1, 2, 3])
    return out

SLOWBOOT = ("crash-pass-task-pass", "crash-parallel-tasks", "crash-wait", "crash-task-retry")

def canonical(sc):
    from harness.world import World
    w = World(sc)
    ops = []
    labels = []
    armed = [False]
    clocks = [0.0]
    while True:
        en = w.enabled()
        w.enabled_cache = en
        if not en:
            break
        n0 = len(w.broker.oplog)
        avoid = [tuple(a) for a in sc.get("canonical_avoid", [])]
        pick = en[0]
        for e in en:
            if e not in avoid:
                pick = e
                break
        w.step(pick)
        labels.append(list(pick))
        en = [pick]
        from pika import _core as simcore
        clocks.append(w.clock.now - 1900000000.0)
        armed.append(any(simcore.timer_kind(t.callback).endswith("asl_state_Wait.<locals>.on_timeout")
                         for inst in w.live_instances() for t in w.timers(inst.conn)))
        ops.append(sum(1 for o in w.broker.oplog[n0:] if o["op"] in ("publish", "ack", "set_timeout")) if en[0][0] in ("deliver", "timer", "return", "call") else 0)
    # differential oracle: the crash-free run of the implementation itself on the canonical schedule
    exp = {}
    for n in w.notes:
        d = n["body"]["detail"]
        if d["status"] != "RUNNING":
            exp[d["executionArn"]] = {"status": d["status"], "output": json.loads(d["output"]) if d.get("output") is not None else None, "error": d.get("error")}
    sc["expect"] = exp
    w.close()
    sc["_wait_armed"] = armed
    sc["_clock"] = clocks
    return labels, ops

def build_jobs(tier, monitors=MONITORS, names=None, variants=None):
    """(jobs, scenarios by job name, crash points per variant, scenarios) - also used by C03 for its drain clause after a recovery."""
    scs = [s for s in scenarios(tier) if names is None or s["name"] in names]
    jobs = []
    by_name = {}
    npoints = {"between": 0, "inflight": 0, "midstep": 0, "double": 0, "downtime": 0, "slowboot": 0}
    limits0 = {"max_states": 20000 if tier == "quick" else 200000, "max_depth": 400, "only": list(monitors)}
    for sc in scs:
        common.annotate(sc)
        labels, ops = canonical(sc)
        for k in range(len(labels) + 1):
            for variant in ("between", "inflight") + (("downtime",) if sc.get("downtime") else ()) + (("slowboot",) if sc["name"] in SLOWBOOT else ()):
                if variant == "downtime" and not (sc["_wait_armed"][k] and sc["_clock"][k] + sc["downtime"] < sc["machines"]["m"]["definition"].get("TimeoutSeconds", 1e9)):
                    continue     # downtime before the Wait is entered / past the deadline legitimately ends in the execution time-out
                s2 = copy.deepcopy(sc)
                s2.pop("_wait_armed", None); s2.pop("_clock", None)
                s2["name"] = "%s@%s%d" % (sc["name"], variant[0], k)
                s2["family"] = "%s/%s" % (sc["family"], variant)
                s2["preserve_outcome"] = True
                crash = ["crash", 1, "inflight"] if variant == "inflight" else ["crash", 1]
                if variant == "slowboot":
                    # the restarted instance's start-up is explored step by step: what waits in the queues can be delivered between two
                    # confirmations of its declarations / subscriptions
                    s2["slow_start"] = True
                pre = labels[:k] + [crash] + ([["sleep", sc["downtime"]]] if variant == "downtime" else []) + [["restart", 1]]
                if k < sc.get("crash_from", 0):
                    continue
                if sc.get("schedule") == "timed":
                    s2["delay_budget"] = 0      # after the restart time only passes while the system is idle (prompt class)
                lim = dict(limits0, preamble=pre)
                jobs.append((s2, sc.get("post_bound"), lim)); by_name[s2["name"]] = s2
                npoints[variant] += 1
        for j, lab in enumerate(labels):
            if j < sc.get("crash_from", 0) and sc.get("crash_from"):
                continue
            for k in range(1, ops[j] + 1):
                s2 = copy.deepcopy(sc)
                s2["name"] = "%s@m%d.%d" % (sc["name"], j, k)
                s2["family"] = "%s/midstep" % sc["family"]
                s2["preserve_outcome"] = bool(sc.get("midstep_preserves"))
                s2["judge_first_terminal"] = bool(sc.get("midstep_preserves"))
                lim = dict(limits0, preamble=labels[:j] + [["arm_crash", k], lab, ["restart", 1]])
                jobs.append((s2, sc.get("post_bound"), lim)); by_name[s2["name"]] = s2
                npoints["midstep"] += 1
        if tier == "thorough":
            for k1 in range(0, len(labels), 2):
                s2 = copy.deepcopy(sc)
                s2["name"] = "%s@dd%d" % (sc["name"], k1)
                s2["family"] = "%s/double" % sc["family"]
                s2["preserve_outcome"] = False
                lim = dict(limits0, preamble=labels[:k1] + [["crash", 1], ["restart", 1], ["crash", 1], ["restart", 1]])
                jobs.append((s2, None, lim)); by_name[s2["name"]] = s2
                npoints["double"] += 1
    if variants is not None:
        keep = [j for j in jobs if j[0]["family"].rsplit("/", 1)[-1] in variants]
        jobs, by_name = keep, {j[0]["name"]: j[0] for j in keep}
    return jobs, by_name, npoints, scs

def run(tier, seed):
    cr = common.CheckResult(PROP)
    jobs, by_name, npoints, scs = build_jobs(tier)
    outs = common.explore_many("checks.monsets", "crash", jobs, seed)
    tot, samples = common.collect(cr, outs, by_name, lambda v: v["monitor"] in MONITORS, "crash")
    cr.level = "model_checking"
    cr.coverage = {
        "states": tot["states"], "transitions": tot["transitions"], "traces_validated_against_impl": tot["paths"],
        "samples": samples, "scenarios": len(scs), "crash_points": npoints, "explorations": len(jobs),
        "capped": tot["capped"], "max_depth": tot["max_depth"], "exhaustive": not tot["capped"] and tot["bounded"] == 0,
        "closed_explorations": tot["closed"], "deviation_bounded_explorations": tot["bounded"],
        "explanation": "for every scenario: every crash point between two atomic steps of the canonical run (plain and with the head message of every consumed queue already "
                       "in flight to the dead process; for four scenarios also with the restarted instance's start-up explored confirmation by confirmation) and every crash point after an individual broker operation inside a step; after the restart all interleavings of redelivered "
                       "events, pending worker replies and timers are explored (closed; the nested fan-out scenarios with at most 2 deviations from the canonical order in the quick tier). Oracles: no execution lost; (between-steps) same terminal status/output as crash-free; no correlation id requested twice",
    }
    cr.assumptions = list(common.ASSUME_SIM) + ["a crash = the broker sees the connection drop: all unacked deliveries are requeued at their original position flagged redelivered; "
                                                  "volatile engine state is lost; the JSON store file survives"]
    # replay files need the preamble
    for f in cr.findings.values():
        nm = f.replay["scenario"]["name"]
    return cr
