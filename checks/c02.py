"""C02 - every execution ends exactly once and its terminal record never changes."""
from . import common
from harness import corpus
PROP = "C02"
MONITORS = ("M-life", "M-ref")
def scenarios(tier):
    fail = [s for s in corpus.fanout_fail_family(tier) if s["family"].endswith("-none") or s["family"] in ("parfail-nested-map", "parfail-nested-par")]
    fail = [s for s in fail if "both" not in s["family"]]
    # every way an execution is started: API / raw start events (seq family), and child launches of every form incl. the child's own time-out
    return corpus.seq_family(tier) + corpus.fanout_ok_family(tier) + fail + corpus.bystander_family(tier) + corpus.child_family(tier) + corpus.update_family(tier)
def run(tier, seed):
    return common.engine_check(PROP, scenarios(tier), MONITORS, tier, seed)
