"""C20 - stores act as dictionaries, persist definitions, and caches are never stale once invalidated
(breadth-first search over operation sequences to a fixed point of the canonical store state, per store kind)."""
import time, os, json, copy, multiprocessing
from collections import OrderedDict
from . import common

PROP = "C20"
KEYS = ["k1", "k2", "k3"]
VALS = {"V1": {"a": 1}, "V2": {"a": 2, "n": {"x": [1]}}, "V0": {}}
LVALS = {"L1": [{"e": 1}], "L2": [{"e": 1}, {"e": 2}], "L0": []}
CAP = 2
MAXQ = 2
TTL = 30

def setup_redis():
    from harness import world
    world.install()
    import redis as simredis
    from asl_workflow_engine import store as S
    return simredis, S

class RedisSut(object):
    """Two clients (two RedisStore objects with their own connections) on one simulated server."""
    def __init__(self, kind, cold=False):
        self.simredis, self.S = setup_redis()
        self.kind = kind
        self.cold = cold
        self.server = self.simredis.reset_server()
        # another store's keys share the keyspace under another prefix: they sort before ours and fill the first SCAN page(s)
        for i in range(self.server.scan_page + 1):
            self.server.set_value("a-foreign:%d" % i, "hash", {json.dumps("f"): json.dumps(i)})
        self.clients = []
        for i in range(2):
            self._new_client()

    def _new_client(self):
        S = self.S
        if hasattr(S.RedisStore, "connection"):
            del S.RedisStore.connection
        cls = S.RedisDictStore if self.kind == "redis-dict" else S.RedisListStore
        st = cls("redis://localhost:6379", "p", cache_size=CAP, daemon=True)
        if not getattr(self, "cold", False):
            st.get_cached_view("__warm__")     # client-side caching is on from the start (tracking + subscriber thread)
            st.cache.clear()
            self.server.read_keys.get(st.redis.id, set()).discard("p:__warm__")
        self.clients.append(st)
        return st

    def pending(self, ci):
        st = self.clients[ci]
        return list(self.server.pending.get(st.tracker_id) or []) if getattr(st, "tracker_id", None) is not None else []

    def reopen(self):
        for st in self.clients:
            try:
                st.stop()
            except Exception:
                pass
        self.clients = []
        self.server.tracking.clear(); self.server.read_keys.clear(); self.server.pending.clear(); self.server.subscribers.clear()
        for i in range(2):
            self._new_client()

    def snapshot(self):
        return (self.server.snapshot(), [None if st.cache is None else OrderedDict((k, copy.deepcopy(v)) for k, v in st.cache.items()) for st in self.clients],
                [st.tracker_id for st in self.clients])

    def restore(self, snap):
        self.server.restore(snap[0])
        for st, c in zip(self.clients, snap[1]):
            if c is None:
                if st.cache is not None:
                    st.cache.clear()
            else:
                if st.cache is None:
                    st.get_cached_view("__warm__")       # starts tracking + creates the cache
                st.cache.clear()
                for k, v in c.items():
                    st.cache[k] = copy.deepcopy(v)

    def canon(self):
        return json.dumps([self.server.data, self.server.ttl, [None if st.cache is None else list(st.cache.items()) for st in self.clients],
                           sorted((str(st.tracker_id), len(self.server.pending.get(st.tracker_id) or [])) for st in self.clients),
                           sorted((str(c), sorted(k)) for c, k in self.server.read_keys.items())], sort_keys=True, default=list)

    def pending(self, ci):
        st = self.clients[ci]
        return list(self.server.pending.get(st.tracker_id) or []) if st.tracker_id is not None else []

    def close(self):
        for st in self.clients:
            try:
                st.stop()
            except Exception:
                pass

def plain(v):
    """Native copy of whatever a store hands out."""
    if v is None:
        return None
    if hasattr(v, "items"):
        return {k: plain(x) for k, x in v.items()}
    if isinstance(v, (list, tuple)) or (hasattr(v, "__iter__") and not isinstance(v, (str, bytes))):
        return [plain(x) for x in v]
    return v

def redis_ops(kind):
    ops = []
    vals = VALS if kind == "redis-dict" else LVALS
    for c in (0, 1):
        for k in KEYS:
            for vn in vals:
                ops.append(("set", c, k, vn))
            ops.append(("get", c, k)); ops.append(("cached", c, k)); ops.append(("delete", c, k)); ops.append(("contains", c, k)); ops.append(("ttl", c, k))
            ops.append(("nested" if kind == "redis-dict" else "append", c, k))
            ops.append(("writeback", c, k)); ops.append(("wrongtype", c, k))
        ops.append(("iter", c)); ops.append(("len", c)); ops.append(("inval", c)); ops.append(("invalall", c))
    ops.append(("reopen",))
    return ops

def apply_redis(sut, ref, op, kind):
    """Execute op on the store and on the reference dict; -> None or (class, detail)"""
    vals = VALS if kind == "redis-dict" else LVALS
    name = op[0]
    try:
        if name == "reopen":
            sut.reopen()
            return None
        if name == "tick":
            # a third of the time-to-live passes on the server
            if not sut.server.ttl:
                return "skip"
            for k in sorted(sut.server.ttl):
                sut.server.ttl[k] -= TTL // 3
                if sut.server.ttl[k] <= 0:
                    sut.server.delete(k)
                    ref.pop(k.split(":", 1)[1], None)
            return None
        st = sut.clients[op[1]]
        if name == "set":
            v = copy.deepcopy(vals[op[3]])
            st[op[2]] = v
            ref[op[2]] = copy.deepcopy(v)
        elif name == "nested":
            if op[2] not in ref:
                return "skip"
            st[op[2]]["a"] = 9
            ref[op[2]]["a"] = 9
        elif name == "append":
            if op[2] not in ref or len(ref[op[2]]) >= 3:
                return "skip"      # bound: lists of at most 3 members
            st[op[2]].append({"e": 9})
            ref[op[2]].append({"e": 9})
        elif name == "writeback":
            # the container handed out for a key is stored back under that key (what the engine does after an in-place edit): nothing changes
            if op[2] not in ref or not ref[op[2]]:
                return "skip"
            st[op[2]] = st[op[2]]
        elif name == "wrongtype":
            # a value the store kind cannot hold is refused with TypeError and changes nothing
            try:
                st[op[2]] = 5
                return ("wrong-type-accepted", "a number was stored under %s" % op[2])
            except TypeError:
                pass
        elif name == "get":
            got = plain(st.get(op[2]))
            want = copy.deepcopy(ref.get(op[2]))
            if (got or None) != (want or None) and not (op[2] not in ref and not got):
                return ("read-differs", "get(%s) -> %r, last written %r" % (op[2], got, want))
            if op[2] in ref and not want and not got:
                pass
        elif name == "cached":
            got = plain(st.get_cached_view(op[2]))
            want = copy.deepcopy(ref.get(op[2]))
            if len(st.cache) > CAP:
                return ("cache-over-capacity", "cache holds %d entries, capacity %d" % (len(st.cache), CAP))
            if not sut.pending(op[1]):
                if (got or None) != (want or None):
                    return ("stale-cached-view", "get_cached_view(%s) -> %r although every invalidation has been delivered; current value %r" % (op[2], got, want))
        elif name == "delete":
            del st[op[2]]
            ref.pop(op[2], None)
        elif name == "contains":
            got = op[2] in st
            want = op[2] in ref
            if got != want:
                cls = "empty-value-not-a-member" if (want and not ref[op[2]]) else "membership-differs"
                return (cls, "%r in store -> %r, reference %r (value %r)" % (op[2], got, want, ref.get(op[2])))
        elif name == "iter":
            got = sorted(st)
            want = sorted(ref)
            if got != want:
                cls = "empty-value-not-a-member" if sorted(k for k in ref if ref[k]) == got else "iteration-differs"
                return (cls, "keys %r, reference %r" % (got, want))
        elif name == "len":
            got = len(st)
            if got != len(ref):
                cls = "empty-value-not-a-member" if got == len([k for k in ref if ref[k]]) else "length-differs"
                return (cls, "len %r, reference %r" % (got, len(ref)))
        elif name == "ttl":
            if op[2] not in ref or not ref[op[2]]:
                return "skip"
            st.set_ttl(op[2], TTL)
            got = sut.server.ttl.get("p:" + op[2])
            if got != TTL:
                return ("ttl-not-set", "after set_ttl(%s, %d) the key's time-to-live is %r" % (op[2], TTL, got))
        elif name == "inval":
            if not sut.pending(op[1]):
                return "skip"
            sut.server.deliver_invalidation(st.tracker_id)
        elif name == "invalall":
            if len(sut.pending(op[1])) < 2:
                return "skip"
            sut.server.deliver_invalidation_batch(st.tracker_id)
    except Exception as e:
        return ("raises-%s" % type(e).__name__, "%r raised %s: %s" % (op, type(e).__name__, e))
    return None

def _unlisted(findings):
    """Signatures among the findings so far that are not recorded known findings (those also occur on the unchanged tree)."""
    known = common.load_known()
    return [sig for sig in findings if not any(common.known_match(k, PROP, sig) for k in known)]

def bfs_redis(kind, tier, config="symmetric"):
    global KEYS, CAP, MAXQ
    if config == "asymmetric":
        # closed configuration: client 0 reads / caches / writes, client 1 only writes
        KEYS, CAP, MAXQ = (["k1", "k2"], 1, 1) if tier == "quick" else (["k1", "k2", "k3"], 2, 2)
    elif config == "batch":
        # closed configuration for coalesced invalidation messages: client 0 reads (plain and cached), client 1 writes
        KEYS, CAP, MAXQ = (["k1", "k2"], 2, 2) if tier == "quick" else (["k1", "k2", "k3"], 2, 3)
    elif config == "expiry":
        # closed configuration with a clock: time passes in steps of a third of the time-to-live, a key whose time runs out is gone
        KEYS, CAP, MAXQ = ["k1"], 2, 1
    else:
        KEYS, CAP, MAXQ = ["k1", "k2", "k3"], 2, 2
    sut = RedisSut(kind)
    ops = redis_ops(kind)
    if config == "expiry":
        ops = [o for o in ops if (o[0] in ("set", "get", "ttl", "delete", "nested", "append", "cached", "inval") and o[1] == 0) or (o[0] == "set" and o[1] == 1)] + [("tick",)]
    if config == "batch":
        nonempty = [v for v in (VALS if kind == "redis-dict" else LVALS) if (VALS if kind == "redis-dict" else LVALS)[v]]
        ops = [o for o in ops if (o[0] in ("get", "cached", "inval", "invalall") and o[1] == 0)
               or (o[0] == "set" and o[1] == 1 and o[3] in nonempty) or (o[0] == "delete" and o[1] == 1)]
    if config == "asymmetric":
        ops = [o for o in ops if len(o) < 2 or o[1] == 0 or o[0] in ("set", "delete", "nested", "append")]
    max_states = (1500 if tier == "quick" else 60000) if config == "symmetric" else 400000
    seen = {}
    start = (sut.snapshot(), {}, [])
    seen[sut.canon() + json.dumps({}, sort_keys=True)] = 0
    frontier = [start]
    states = transitions = 0
    findings = {}
    capped = False
    t_start = time.time()
    while frontier:
        nxt = []
        if time.time() - t_start > 150 and _unlisted(findings):
            # a store that already disagrees with the reference (beyond the recorded known findings) is not searched to the bitter end (a defect that lets values pile up
            # makes the state space unbounded): reported as capped, the counter-examples found stand
            capped = True
            break
        for snap, ref, path in frontier:
            states += 1
            for op in ops:
                if op[0] == "reopen" and len(path) > 3:
                    continue
                sut.restore(snap)
                r2 = copy.deepcopy(ref)
                if op[0] == "reopen":
                    # state-wise a restart of both clients = empty caches, the server forgets what the closed connections tracked
                    # (the real stop() / constructor path is exercised by reopen_for_real() below)
                    for st in sut.clients:
                        st.cache.clear()
                    sut.server.read_keys.clear(); sut.server.pending.clear()
                    v = None
                else:
                    v = apply_redis(sut, r2, op, kind)
                    if any(len(q) > MAXQ for q in sut.server.pending.values()):
                        continue      # bound: at most MAXQ undelivered invalidation messages per client
                if v == "skip":
                    continue
                transitions += 1
                if v is not None:
                    sig = "store|%s|%s|%s" % (kind, v[0], op[0])
                    if sig not in findings or len(path) < len(findings[sig][1]):
                        findings[sig] = (v[1], path + [list(op)])
                    continue
                k = sut.canon() + json.dumps(r2, sort_keys=True)
                if k not in seen:
                    if len(seen) >= max_states:
                        capped = True
                        continue
                    seen[k] = 1
                    nxt.append((sut.snapshot(), r2, path + [list(op)]))
        frontier = nxt
    # a real restart: stop both clients, build new ones on the same server, everything written is still there
    sut.restore(start[0])
    ref = {}
    vals = VALS if kind == "redis-dict" else LVALS
    for i, (k, vn) in enumerate(zip(KEYS, [x for x in vals if vals[x]] * 2)):
        apply_redis(sut, ref, ("set", i % 2, k, vn), kind)
        apply_redis(sut, ref, ("cached", (i + 1) % 2, k), kind)
    sut.reopen()
    for k in KEYS:
        for c in (0, 1):
            for opn in ("get", "cached", "contains"):
                v = apply_redis(sut, ref, (opn, c, k), kind)
                transitions += 1
                if v not in (None, "skip"):
                    findings["store|%s|%s|after-real-reopen" % (kind, v[0])] = (v[1], [["reopen-for-real"], [opn, c, k]])
    sut.close()
    return {"kind": kind + "/" + config, "states": states, "transitions": transitions, "findings": findings, "capped": capped, "distinct": len(seen)}

def cold_paths(kind, tier):
    """Clients that have *not yet* served a cached read (tracking is switched on lazily by the first get_cached_view): every operation
    sequence up to the tier's length from a fresh pair of clients, replayed from scratch each time (this start-up state cannot be
    restored from a snapshot).  Same operations and oracle as the search above."""
    global KEYS, CAP, MAXQ
    KEYS, CAP, MAXQ = ["k1"], 2, 3
    vals = [v for v in (VALS if kind == "redis-dict" else LVALS) if (VALS if kind == "redis-dict" else LVALS)[v]][:2]
    ops = []
    for c in (0, 1):
        ops += [("set", c, "k1", v) for v in vals] + [("cached", c, "k1"), ("get", c, "k1"), ("inval", c), ("invalall", c), ("delete", c, "k1")]
    depth = 4 if tier == "quick" else 5
    findings = {}
    paths = transitions = 0
    seen_states = set()
    frontier = [[]]
    for d in range(depth):
        nxt = []
        for path in frontier:
            for op in ops:
                if op[0] == "delete" and not any(o[0] == "set" for o in path):
                    continue
                sut = RedisSut(kind, cold=True)
                ref = {}
                bad = False
                for o in path:
                    if apply_redis(sut, ref, o, kind) not in (None,):
                        bad = True
                        break
                if bad:
                    sut.close(); continue
                v = apply_redis(sut, ref, op, kind)
                transitions += 1
                if v == "skip":
                    sut.close(); continue
                if v is not None:
                    sig = "store|%s|%s|%s" % (kind, v[0], op[0])
                    if sig not in findings or len(path) < len(findings[sig][1]):
                        findings[sig] = (v[1] + " (clients that had not served a cached read before)", [["cold-start"]] + path + [list(op)])
                    sut.close(); continue
                k = sut.canon() + json.dumps(ref, sort_keys=True)
                sut.close()
                paths += 1
                if k in seen_states and d < depth - 1:
                    continue
                seen_states.add(k)
                nxt.append(path + [op])
        frontier = nxt
    return {"kind": kind + "/cold-start", "states": len(seen_states), "transitions": transitions, "findings": findings, "capped": False, "distinct": len(seen_states)}

# ------------------------------------------------------------------------------------------------------
# what an unreadable store file can look like (argument: the bytes of the intact file)
CORRUPT = {
    "notjson": lambda good: b"{not json",
    "truncated": lambda good: good[: max(1, len(good) // 2)] if len(good) > 2 else b"{",
    "empty": lambda good: b"",
    "binary": lambda good: b"\x1f\x8b\x08\x00\xfe\xff\x80\x81",
    "latin1": lambda good: '{"caf\u00e9": {}}'.encode("latin-1"),
    "utf16": lambda good: '{"k": {}}'.encode("utf-16"),
}

def bfs_local(kind, tier):
    """JSONStore / SimpleStore: one client, plus reopen (JSON) and corrupt-file reopen."""
    from harness import world
    world.install()
    from asl_workflow_engine import store as S
    path = os.path.join(world.tmpdir(), "c20-%d.json" % os.getpid())
    def fresh():
        if os.path.exists(path):
            os.unlink(path)
        return S.JSONStore(path) if kind == "json" else S.SimpleStore()
    ops = []
    for k in KEYS[:2]:
        for vn in VALS:
            ops.append(("set", k, vn))
        ops += [("get", k), ("cached", k), ("delete", k), ("contains", k), ("ttl", k), ("nested", k), ("writeback", k), ("writeback-copy", k)]
    ops += [("iter",), ("len",)]
    if kind == "json":
        ops += [("reopen",), ("factory-reopen",)] + [("corrupt-reopen", c) for c in sorted(CORRUPT)]
    def mutate(st, r2, op):
        """The state-changing operations, on the store and on the reference (used to replay a path and to take a step)."""
        n = op[0]
        if n == "set":
            st[op[1]] = copy.deepcopy(VALS[op[2]]); r2[op[1]] = copy.deepcopy(VALS[op[2]])
        elif n == "delete" and op[1] in r2:
            del st[op[1]]; del r2[op[1]]
        elif n == "nested" and op[1] in r2:
            # an update in place of what the store handed out: visible to later reads of this store object; whether it is
            # persisted is unspecified until the next write-through
            st[op[1]]["a"] = 9; r2[op[1]]["a"] = 9
        elif n == "writeback" and op[1] in r2:
            st[op[1]] = st[op[1]]                    # the read-modify-write idiom: the same object written back
        elif n == "writeback-copy" and op[1] in r2:
            st[op[1]] = dict(st[op[1]])              # ... or an equal copy of it
        else:
            return False
        return True
    seen = {"{}|False": 1}
    frontier = [({}, [], False)]
    states = transitions = 0
    findings = {}
    while frontier:
        nxt = []
        for ref, path_, dirty in frontier:
            states += 1
            for op in ops:
                # the store is rebuilt by replaying the whole operation path (not from the reference value), so that state the
                # reference cannot see - the file lagging behind memory after an update in place - is carried along
                st = fresh()
                r2 = {}
                for o in path_:
                    mutate(st, r2, tuple(o))
                assert r2 == ref, (r2, ref)
                v = None
                d2 = dirty
                try:
                    n = op[0]
                    if n in ("set", "writeback", "writeback-copy", "nested") or (n == "delete" and op[1] in r2):
                        if not mutate(st, r2, op):
                            transitions += 1
                            continue
                        d2 = (n == "nested") or (dirty and False)
                        if n == "nested":
                            d2 = True
                        elif kind == "json" and json.load(open(path)) != r2:
                            v = ("not-written-through", "after %s the file holds %r, the store %r" % (n, json.load(open(path)), r2))
                        if plain(dict(st)) != r2:
                            v = ("read-differs", "after %s the store holds %r, reference %r" % (n, plain(dict(st)), r2))
                    elif n == "set":
                        pass
                    elif n in ("get", "cached"):
                        got = plain(st.get(op[1]) if n == "get" else st.get_cached_view(op[1]))
                        if got != r2.get(op[1]):
                            v = ("read-differs", "%s(%s) -> %r, last written %r" % (n, op[1], got, r2.get(op[1])))
                    elif n == "delete":
                        if True:
                            try:
                                del st[op[1]]
                                v = ("delete-missing-accepted", "deleting a missing key did not raise KeyError")
                            except KeyError:
                                pass
                    elif n == "contains":
                        if (op[1] in st) != (op[1] in r2):
                            v = ("membership-differs", "%r in store -> %r" % (op[1], op[1] in st))
                    elif n == "iter":
                        if sorted(st) != sorted(r2):
                            v = ("iteration-differs", "keys %r, reference %r" % (sorted(st), sorted(r2)))
                    elif n == "len":
                        if len(st) != len(r2):
                            v = ("length-differs", "len %r, reference %r" % (len(st), len(r2)))
                    elif n == "ttl":
                        st.set_ttl(op[1], TTL)
                    elif n == "reopen":
                        st2 = S.JSONStore(path)
                        if plain(dict(st2)) != r2 and not dirty:
                            v = ("lost-after-reopen", "after reopening the file the store holds %r, written %r" % (plain(dict(st2)), r2))
                    elif n == "factory-reopen":
                        st2 = S.create_ASL_store(path)
                        if not isinstance(st2, S.JSONStore) or (plain(dict(st2)) != r2 and not dirty):
                            v = ("lost-after-reopen", "create_ASL_store(%s) -> %s holding %r" % (path, type(st2).__name__, plain(dict(st2))))
                    elif n == "corrupt-reopen":
                        good = open(path, "rb").read() if os.path.exists(path) else b"{}"
                        open(path, "wb").write(CORRUPT[op[1]](good))
                        st2 = S.JSONStore(path)
                        if len(st2) != 0:
                            v = ("corrupt-file-not-empty", "a store opened on an unreadable file (%s) holds %r" % (op[1], plain(dict(st2)),))
                        else:
                            # ... and is a working store from then on
                            st2["after"] = {"x": 1}
                            if plain(dict(S.JSONStore(path))) != {"after": {"x": 1}}:
                                v = ("corrupt-file-store-unusable", "a write to the store opened on an unreadable file (%s) is not read back" % op[1])
                        open(path, "wb").write(good)
                except Exception as e:
                    v = ("raises-%s" % type(e).__name__, "%r raised %s: %s" % (op, type(e).__name__, e))
                transitions += 1
                if v is not None:
                    sig = "store|%s|%s|%s" % (kind, v[0], op[0])
                    if sig not in findings or len(path_) < len(findings[sig][1]):
                        findings[sig] = (v[1], path_ + [list(op)])
                    continue
                k = json.dumps(r2, sort_keys=True) + "|" + str(d2)
                if k not in seen:
                    seen[k] = 1
                    nxt.append((r2, path_ + [list(op)], d2))
        frontier = nxt
    if os.path.exists(path):
        os.unlink(path)
    return {"kind": kind, "states": states, "transitions": transitions, "findings": findings, "capped": False, "distinct": len(seen)}

def factories(cr):
    """create_*_store choose the store kind from the URL."""
    simredis, S = setup_redis()
    from harness import world
    n = 0
    for url, want in (("x.json", ("JSONStore", "SimpleStore", "SimpleStore")), ("redis://localhost:6379", ("RedisDictStore", "RedisDictStore", "RedisListStore"))):
        if url.endswith(".json"):
            url = os.path.join(world.tmpdir(), "fact-%d.json" % os.getpid())
        simredis.reset_server()
        if hasattr(S.RedisStore, "connection"):
            del S.RedisStore.connection
        got = (type(S.create_ASL_store(url)).__name__, type(S.create_executions_store(url)).__name__, type(S.create_history_store(url)).__name__)
        n += 1
        if got != want:
            cr.add("store|factory", "store kinds for %s: %r, expected %r" % (url, got, want), {"kind": "store", "property": PROP, "signature": "store|factory", "path": []}, size=1)
    return n

def _job(args):
    kind, tier = args[0], args[1]
    if kind.startswith("redis") and args[2] == "cold-start":
        return cold_paths(kind, tier)
    return bfs_redis(kind, tier, args[2]) if kind.startswith("redis") else bfs_local(kind, tier)

def run(tier, seed):
    cr = common.CheckResult(PROP)
    jobs = [("json", tier), ("simple", tier)] + [(k, tier, c) for k in ("redis-dict", "redis-list") for c in ("asymmetric", "symmetric", "batch", "cold-start", "expiry")]
    ctx = multiprocessing.get_context("fork")
    with ctx.Pool(10) as pool:
        outs = pool.map(_job, jobs, chunksize=1)
    nf = factories(cr)
    for o in outs:
        for sig, (detail, path) in o["findings"].items():
            cr.add(sig, "%s store, after %s: %s" % (o["kind"], json.dumps(path[:-1]), detail), {"kind": "store", "property": PROP, "signature": sig, "store": o["kind"].split("/")[0], "path": path}, size=len(path))
    cr.coverage = {
        "states": sum(o["states"] for o in outs), "transitions": sum(o["transitions"] for o in outs) + nf,
        "traces_validated_against_impl": sum(o["transitions"] for o in outs),
        "distinct_states": {o["kind"]: o["distinct"] for o in outs}, "capped": [o["kind"] for o in outs if o["capped"]], "exhaustive": not any(o["capped"] for o in outs),
        "samples": [{"store": "redis-dict", "ops": [["set", 0, "k1", "V1"], ["cached", 1, "k1"], ["nested", 0, "k1"], ["inval", 1], ["cached", 1, "k1"]]}],
        "explanation": "per store kind a breadth-first search over operation sequences (set, nested update / append through the returned view, get, get_cached_view, delete, in, iterate, len, set_ttl, reopen, the passing of a third of the time-to-live (expiry configuration), "
                       "corrupt-file reopen, deliver one queued invalidation to a client, deliver all queued invalidations to a client as one multi-key message) over 3 keys x 3 values, two clients for the Redis kinds with cache capacity 2, to a fixed point of the canonical state "
                       "(backend contents + time-to-live + each client's cache + queued invalidations + tracked keys); every placement of every invalidation between operations is a transition; oracle: a dict",
    }
    cr.assumptions = ["simulated redis server + pottery containers (/verif/sim/redis, /verif/sim/pottery): hashes/lists with JSON-encoded members, empty containers do not exist, SCAN paging, "
                      "CLIENT TRACKING with REDIRECT: an invalidation is queued for every tracked client that read the key and delivered only when the harness says so",
                      "invalidation handler placement is at operation granularity (the property's quantifier)"]
    return cr

def replay(rp):
    kind = rp["store"]
    if kind.startswith("redis"):
        sut = RedisSut(kind)
        ref = {}
        v = None
        for op in rp["path"]:
            v = apply_redis(sut, ref, tuple(op), kind)
        sut.close()
    else:
        o = bfs_local(kind, "quick")
        v = o["findings"].get(rp["signature"])
    print(("REPRODUCED property=C20 %r" % (v,)) if v not in (None, "skip") else "not reproduced")
    return 1 if v not in (None, "skip") else 0
