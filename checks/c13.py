"""C13 - payload templates and intrinsic functions evaluate as specified and fail cleanly (grammar-based exhaustive enumeration)."""
import os, sys, json, copy, re, itertools, subprocess, multiprocessing, hashlib
from . import common
from ref import template as RT

PROP = "C13"
INPUT = {"a": 1, "n": -2, "f": 1.5, "s": "x,y", "arr": [1, 2, 2, "b", "a", "b"], "o": {"k": 1}, "o2": {"k": 2, "j": [0]}, "q": "it's", "t": True, "z": None, "e": "", "b64": "aGk=",
         "js": "{\"p\": [1, 2]}", "nested": [[1], [1], {"x": 1}, {"x": 1}]}
CTX = {"Execution": {"Name": "ex", "Input": {"orig": True}}, "State": {"Name": "S"}}

ATOMS = ["1", "-2", "0", "1.5", "'a'", "'a,b'", "'a)b'", "'(x'", "'it\\'s'", "'{}'", "'\\{x\\}'", "'a^]c'", "'a-c'", "'x{}y{}'", "''", "null", "true", "false",
         "$.a", "$.s", "$.arr", "$.o", "$.zz", "$.q", "$$.Execution.Name"]
NESTED1 = ["States.Array(1, 2)", "States.Format('{}', 'z')", "States.MathAdd(1, 2)", "States.Array()"]
NESTED2 = ["States.Array(States.MathAdd(1, 1), 'k')", "States.ArrayLength(States.Array(1, States.Array(2)))"]

# per function: (arity range to enumerate, argument pool)
def pools(tier):
    deep = NESTED1 + (NESTED2 if tier != "quick0" else [])
    num = ["1", "-2", "0", "2", "1.5", "'a'", "null", "true", "$.a", "$.zz", "States.MathAdd(1, 2)"]
    arr = ["$.arr", "$.nested", "$.o", "States.Array(1, 2)", "States.Array()", "'a'", "1", "null", "$.zz", "States.Array(States.Array(1), States.Array(1))"]
    strs = ["'a'", "'a,b'", "'it\\'s'", "'dogs\\''", "'\\'q\\''", "''", "$.s", "$.q", "$.b64", "$.js", "1", "null", "$.zz", "'a^]c'", "'a-c'", "'!!!'", "$.e"]
    return {
        "States.Format": (range(0, 4), ["'x'", "'{}'", "'x{}y{}'", "'\\{\\}'", "'C:\\\\{}'", "'it\\'s {}'", "'{0}'", "'{0.__class__}'", "'{a}'", "'{'", "'}'", "'{}{}{}'", "$.s", "1"]
                          + ["'a'", "'a,b'", "'a)b'", "1", "$.a", "$.q", "$.zz", "States.MathAdd(1, 2)", "States.Format('<{}>', 'in')"]
                          # escaped backslashes next to every other escape and next to a placeholder (template and ordinary argument)
                          + ["'end\\''", "'{}\\''"]
                          + ["'a\\\\\\\\b{}'", "'\\\\\\{{}\\\\\\}'", "'x\\\\\\'y'", "'p\\\\q'"]),
        "States.StringToJson": (range(0, 3), strs + ["'[1, 2]'", "'{'"]),
        "States.JsonToString": (range(0, 3), ["$.o", "$.arr", "1", "'a'", "null", "$.zz", "$.nested"]),
        "States.Array": (range(0, 4), ["1", "'a,b'", "null", "true", "$.o", "$.zz", "States.Array(1)", "'dogs\\''", "'\\'q\\''"]),
        "States.ArrayPartition": (range(0, 4), arr + ["2", "0", "-1", "3"]),
        "States.ArrayContains": (range(0, 4), arr + ["2", "'b'", "true", "$.a"]),
        "States.ArrayRange": (range(0, 5), ["1", "9", "-2", "0", "2", "1.5", "'a'", "null", "1001", "$.a", "$.zz"]),
        "States.ArrayGetItem": (range(0, 4), arr + ["0", "2", "-1", "9", "true"]),
        "States.ArrayLength": (range(0, 3), arr),
        "States.ArrayUnique": (range(0, 3), arr + ["States.Array('b', 'a', 'b', 'c', 'a')", "States.Array(1, true, 1, 0, false)"]),
        "States.Base64Encode": (range(0, 3), strs),
        "States.Base64Decode": (range(0, 3), strs + ["'aGk'", "'aGk=='"]),
        "States.Hash": (range(0, 4), ["'a'", "$.s", "1", "null", "'MD5'", "'SHA-1'", "'SHA-256'", "'SHA-384'", "'SHA-512'", "'sha-1'", "$.zz"]),
        "States.JsonMerge": (range(0, 5), ["$.o", "$.o2", "$.arr", "'a'", "null", "false", "true", "$.zz"]),
        "States.MathAdd": (range(0, 4), num),
        "States.StringSplit": (range(0, 4), ["'a,b'", "'a-b.c'", "$.s", "','", "',.-'", "'^]'", "'a^b]c'", "'\\\\'", "'-'", "1", "null", "$.zz", "''"]),
        "States.UUID": (range(0, 2), ["1"]),
        "States.Nope": (range(0, 2), ["1"]),
    }

def expressions(tier):
    out = []
    for fn, (ar, pool) in pools(tier).items():
        for n in ar:
            if tier == "quick" and n >= 3 and len(pool) > 9:
                pool_n = pool[:9]
            else:
                pool_n = pool
            for args in itertools.product(pool_n, repeat=n):
                out.append("%s(%s)" % (fn, ", ".join(args)))
    # names that are not States.<function>: whatever a dispatcher could find under such a name (a helper local to the evaluator, one of its
    # own implementations without the prefix, a builtin) it is not an intrinsic function. The name list is read from the evaluator's code object.
    for nm in local_names():
        for args in ("", "1", "1, 1", "'a'", "$.arr"):
            out.append("%s(%s)" % (nm, args))
    # malformed call text
    out += ["States.MathAdd(1, 2", "States.MathAdd 1, 2)", "MathAdd(1, 2)", "States.MathAdd(1,, 2)", "States.MathAdd(1 2)", "States.Array('a)", "States.Format('{}', 'a', )",
            " States.MathAdd( 1 ,2 ) ", "States.MathAdd(1,2)x", "States.Array(1, 'b', States.Array(States.Array('c, d')))", "States.Format('{} and {}', States.Format('{}', 'n1'), States.Format('{}', 'n2'))"]
    return out

def local_names():
    """Every name local to the template evaluator and its nested functions (from the code objects), plus a few builtins."""
    sp, ex = engine()
    names = set()
    def walk(code):
        names.update(code.co_varnames); names.update(code.co_cellvars); names.update(code.co_freevars)
        for c in code.co_consts:
            if hasattr(c, "co_varnames"):
                names.add(c.co_name)
                walk(c)
    walk(sp.evaluate_payload_template.__code__)
    names = {n for n in names if n.isidentifier() and not n.startswith("__")}
    return sorted(names) + ["len", "str", "print", "eval", "exec", "open", "dict", "States", "asl_intrinsic_Array", "asl_intrinsic_UUID"]

def templates():
    """Payload templates mixing literal and '.$' members at depth <= 2 (incl. arrays)."""
    vals = [("$.a", 1), ("$.o", {"k": 1}), ("$", INPUT), ("$$.State.Name", "S"), ("States.MathAdd(1, 2)", 3), ("$.zz", "PATHFAIL"), ("States.Nope()", "INTRFAIL")]
    lits = [1, "$.a", None, {"deep": "$.a", "lit.s": "x.$"}, [1, "$.a"]]   # (a string array item ending in '.$' is evaluated by a documented extension: not in the alphabet)
    out = []
    for (p, v) in vals:
        for lit in lits:
            out.append(({"k.$": p, "lit": lit}, ("fail", v) if isinstance(v, str) and v.endswith("FAIL") else {"k": v, "lit": lit}))
            out.append(({"outer": {"k.$": p, "lit": lit}, "arr": [lit, {"in.$": p}]},
                        ("fail", v) if isinstance(v, str) and v.endswith("FAIL") else {"outer": {"k": v, "lit": lit}, "arr": [lit, {"in": v}]}))
    out.append(({}, {})); out.append((None, "INPUT")); out.append(({"a": {"b": {"c.$": "$.o.k"}}}, {"a": {"b": {"c": 1}}}))
    out.append(([[{"id.$": "$.a"}], [1, [{"deep.$": "$.o.k"}]]], [[{"id": 1}], [1, [{"deep": 1}]]]))
    out.append(({"rows": [[{"id.$": "$.a"}, "lit"], []]}, {"rows": [[{"id": 1}, "lit"], []]}))
    out.append(({"k.$": 5}, ("unspecified", None)))
    return out

_eng = None
def engine():
    global _eng
    if _eng is None:
        from harness import world
        world.install()
        import asl_workflow_engine.state_engine_paths as sp
        import asl_workflow_engine.asl_exceptions as ex
        _eng = (sp, ex)
    return _eng

def eval_engine(expr):
    sp, ex = engine()
    inp, ctx = copy.deepcopy(INPUT), copy.deepcopy(CTX)
    tmpl = {"v.$": expr}
    try:
        r = sp.evaluate_payload_template(inp, ctx, tmpl)
        got = ("value", r["v"])
        try:
            json.dumps(got[1])
        except (TypeError, ValueError):
            got = ("value-not-json", repr(r["v"]))
    except ex.IntrinsicFailure:
        got = ("intrinsic",)
    except (ex.PathMatchFailure, ex.ParameterPathFailure):
        got = ("path",)
    except Exception as e:
        got = ("raise", type(e).__name__)
    mutated = inp != INPUT or ctx != CTX or tmpl != {"v.$": expr}
    # evaluating the same expression again - after the caller has scribbled on the first result - gives the same answer, built afresh
    # (a result handed out twice, or remembered between evaluations, would carry the scribble; random functions must not repeat)
    if got[0] == "value" and not mutated:
        first = copy.deepcopy(got[1])
        got = ("value", first)
        if isinstance(r["v"], list):
            r["v"].append("scribble")
        elif isinstance(r["v"], dict):
            r["v"]["scribble"] = True
        try:
            r2 = sp.evaluate_payload_template(copy.deepcopy(INPUT), copy.deepcopy(CTX), {"v.$": expr})["v"]
            if "UUID" in expr or "MathRandom" in expr:
                if "UUID" in expr and json.dumps(r2, sort_keys=True, default=repr) == json.dumps(first, sort_keys=True, default=repr) and "States.UUID" in json.dumps(expr):
                    mutated = "repeats"
            elif json.dumps(r2, sort_keys=True, default=repr) != json.dumps(first, sort_keys=True, default=repr):
                mutated = "second-evaluation-differs"
        except Exception:
            mutated = "second-evaluation-differs"
    return got, mutated

def mathrandom_part(cr):
    rpool = ["1", "4", "'a'", "null", "1.5", "true", "$.zz", "$.o", "$.arr"]
    lit = {"1": 1, "4": 4, "'a'": "a", "null": None, "1.5": 1.5, "true": True, "$.zz": KeyError, "$.o": dict, "$.arr": list}
    isint = lambda v: isinstance(v, int) and not isinstance(v, bool)
    count = 0
    for arity in range(0, 5):
        for rargs in itertools.product(rpool if arity < 4 else rpool[:4], repeat=arity):
            expr = "States.MathRandom(%s)" % ", ".join(rargs)
            rgot, _ = eval_engine(expr)
            count += 1
            rvals = [lit[a] for a in rargs]
            if KeyError in rvals:
                rwant = "path"
            elif arity in (2, 3) and isint(rvals[0]) and isint(rvals[1]):
                rwant = "value" if rvals[0] < rvals[1] and (arity == 2 or isint(rvals[2])) else "value-or-intrinsic"     # an empty range / a seed of another type
            else:
                rwant = "intrinsic"
            bad = None
            if rgot[0] == "raise":
                bad = "raises-%s" % rgot[1]
            elif rwant == "value-or-intrinsic":
                if rgot[0] not in ("value", "intrinsic"):
                    bad = "wrong-failure-class"
            elif rwant == "value":
                if rgot[0] != "value":
                    bad = "rejects-valid"
                elif not isint(rgot[1]) or not (rvals[0] <= rgot[1] < rvals[1]):
                    bad = "out-of-range"
                elif arity == 3:
                    again, _ = eval_engine(expr)
                    if again != rgot:
                        bad = "seed-does-not-fix-the-value"
            elif rgot[0] != rwant and not (rwant == "path" and rgot[0] == "intrinsic"):
                bad = "accepts-invalid" if rgot[0] == "value" else "wrong-failure-class"
            if bad:
                sig = "intrinsic|States.MathRandom|" + bad
                cr.add(sig, "%s -> %r" % (expr, rgot), {"kind": "expr", "property": PROP, "signature": sig, "expr": expr}, size=len(expr))
    return count

def eval_ref(expr):
    try:
        v = RT.intrinsic(expr, copy.deepcopy(INPUT), copy.deepcopy(CTX))
        return ("value", v)
    except RT.IntrinsicFailure:
        return ("intrinsic",)
    except RT.PathFailure:
        return ("path",)
    except RT.Unspecified:
        return None

def eval_tokenizer_model(expr):
    """Defect model: the implementation's regex argument tokeniser (no real parser: nesting deeper than one call, a quote
    before ')' or an escaped backslash before the closing quote are mis-split; unterminated calls/strings are accepted)
    combined with the *reference* function semantics.  A mismatch that this model reproduces exactly is the known
    tokeniser finding; anything else is not."""
    def ev(text):
        if "(" not in text:
            raise RT.IntrinsicFailure("no call")
        func, args = text.split("(", 1)
        func = func.strip()
        args = args.rsplit(")", 1)[0]
        toks = re.findall('\'.*?(?<!\\\\)\'|States.*?\\)|[^\\s*,]+', args)
        vals = []
        for i, a in enumerate(toks):
            if a.startswith("'"):
                a = a[1:-1] if len(a) > 1 and a.endswith("'") else a[1:]
                vals.append(("tmpl", a) if (func == "States.Format" and i == 0) else RT.unescape(a))
            elif a.startswith("$"):
                try:
                    vals.append(copy.deepcopy(RT.JP.apply_path(INPUT, CTX, a)))
                except RT.JP.NoMatch:
                    raise RT.PathFailure(a)
                except RT.JP.BadPath:
                    raise RT.Unspecified(a)
            elif a.startswith("States."):
                v = ev(a)
                if isinstance(v, tuple):
                    raise RT.Unspecified("loose nested")
                vals.append(v)
            elif a in ("null", "true", "false"):
                vals.append({"null": None, "true": True, "false": False}[a])
            else:
                try:
                    vals.append(int(a))
                except ValueError:
                    try:
                        vals.append(float(a))
                    except ValueError:
                        raise RT.IntrinsicFailure("bad argument")
        if func not in RT.FUNCS:
            raise RT.IntrinsicFailure("unknown")
        if func == "States.StringSplit" and len(vals) == 2 and vals[1] == "":
            raise RT.IntrinsicFailure("an empty separator set is an invalid character class in the implementation")
        return RT.FUNCS[func](vals)
    try:
        return ("value", ev(expr))
    except RT.IntrinsicFailure:
        return ("intrinsic",)
    except RT.PathFailure:
        return ("path",)
    except RT.Unspecified:
        return None

UUID_RE = re.compile(r"^[0-9a-f]{8}-[0-9a-f]{4}-[0-9a-f]{4}-[0-9a-f]{4}-[0-9a-f]{12}$")

def agree(got, want):
    if want[0] != "value":
        return got[0] == want[0]
    if got[0] != "value":
        return False
    w, g = want[1], got[1]
    if isinstance(w, tuple):
        if w[0] == "uuid":
            return isinstance(g, str) and bool(UUID_RE.match(g))
        if w[0] == "jsontext":
            try:
                return isinstance(g, str) and RT.jeq(json.loads(g), w[1])
            except ValueError:
                return False
        if w[0] == "multiset":
            return isinstance(g, list) and sorted(json.dumps(x, sort_keys=True) for x in g) == sorted(json.dumps(x, sort_keys=True) for x in w[1])
    return json.dumps(g, sort_keys=True) == json.dumps(w, sort_keys=True) and type(g) == type(w)

def classify(expr, got, want):
    fn = expr.strip().split("(")[0]
    depth = max(0, expr.count("States.") - 1)
    if got[0] == "raise":
        return "%s|raises-%s" % (fn, got[1])
    if got[0] == "value-not-json":
        return "%s|non-json-value" % fn
    kind = "wrong-value" if (got[0] == "value" and want[0] == "value") else "accepts-invalid" if got[0] == "value" else "rejects-valid" if want[0] == "value" else "wrong-failure-class"
    return "%s|%s|%s" % (fn, kind, "nested" if depth else "flat")

def _chunk(args):
    tier, lo, hi = args
    ex = expressions(tier)[lo:hi]
    res = []
    for e in ex:
        got, mut = eval_engine(e)
        want = eval_ref(e)
        res.append((got, mut, want))
    return res

def seed_digest(tier):
    """Serialized results of the whole corpus (run under a given PYTHONHASHSEED in a sub-process)."""
    h = hashlib.sha256()
    bad = []
    for e in expressions(tier):
        got, mut = eval_engine(e)
        if "UUID" in e or "MathRandom" in e:
            continue
        h.update(json.dumps([e, got], sort_keys=True, default=repr).encode())
        bad.append(json.dumps(got, sort_keys=True, default=repr))
    return h.hexdigest(), bad

def run(tier, seed):
    cr = common.CheckResult(PROP)
    exs = expressions(tier)
    n = len(exs)
    step = max(200, n // (common.JOBS * 3))
    ctx = multiprocessing.get_context("fork")
    with ctx.Pool(common.JOBS) as pool:
        outs = pool.map(_chunk, [(tier, lo, min(n, lo + step)) for lo in range(0, n, step)], chunksize=1)
    res = [r for o in outs for r in o]
    judged = 0
    for e, (got, mut, want) in zip(exs, res):
        if mut is True:
            sig = "intrinsic|mutates-arguments"
            cr.add(sig, "%s modified its template / input / context" % e, {"kind": "expr", "property": PROP, "signature": sig, "expr": e}, size=len(e))
        elif mut:
            sig = "intrinsic|" + str(mut)
            cr.add(sig, "%s evaluated a second time (after the first result was modified by its receiver): %s" % (e, mut), {"kind": "expr", "property": PROP, "signature": sig, "expr": e}, size=len(e))
        if got[0] in ("raise", "value-not-json"):
            judged += 1
            sig = "intrinsic|" + classify(e, got, want or ("intrinsic",))
            cr.add(sig, "%s -> %r (only States.IntrinsicFailure or a path failure may escape)" % (e, got), {"kind": "expr", "property": PROP, "signature": sig, "expr": e}, size=len(e))
            continue
        if want is None:
            continue
        judged += 1
        if not agree(got, want):
            model = eval_tokenizer_model(e)
            if model is not None and agree(got, model):
                sig = "intrinsic|regex-argument-tokenizer"
                cr.add(sig, "%s -> %r, definition gives %r" % (e, got, want), {"kind": "expr", "property": PROP, "signature": sig, "expr": e}, size=len(e))
                continue
            sig = "intrinsic|" + classify(e, got, want)
            cr.add(sig, "%s -> %r, definition gives %r" % (e, got, want), {"kind": "expr", "property": PROP, "signature": sig, "expr": e}, size=len(e))
    # sequences: what one call does to shared state (the generator a seeded States.MathRandom seeds) must not make a later
    # States.UUID() repeat - after every seeded draw, alone and inside one template, over several rounds
    sp, ex = engine()
    seen_ids = {}
    for rnd in range(3):
        for tmpl in ({"pick.$": "States.MathRandom(1, 1000, 7)", "id.$": "States.UUID()"}, {"id.$": "States.UUID()", "pick.$": "States.MathRandom(1, 1000, 7)"},
                     {"a.$": "States.MathRandom(1, 5, 3)"}, {"id.$": "States.UUID()"}, {"arr": [{"id.$": "States.UUID()"}, {"id.$": "States.UUID()"}]}):
            try:
                r = sp.evaluate_payload_template(copy.deepcopy(INPUT), copy.deepcopy(CTX), copy.deepcopy(tmpl))
            except Exception as e:
                r = {"error": type(e).__name__}
            ids = [x for x in re.findall(r"[0-9a-f]{8}-[0-9a-f]{4}-[0-9a-f]{4}-[0-9a-f]{4}-[0-9a-f]{12}", json.dumps(r))]
            for u in ids:
                seen_ids[u] = seen_ids.get(u, 0) + 1
            judged += 1
    rep = [u for u, n in seen_ids.items() if n > 1]
    if rep:
        sig = "intrinsic|States.UUID|repeats-after-seeded-random"
        cr.add(sig, "States.UUID() returned %s %d times in a sequence of evaluations that also draw seeded States.MathRandom values" % (rep[0], seen_ids[rep[0]]),
               {"kind": "sequence", "property": PROP, "signature": sig}, size=1)
    # States.MathRandom: which argument lists are accepted, the value lies in [start, end), and an integer seed fixes the value
    judged += mathrandom_part(cr)
    # templates
    sp, ex = engine()
    nt = 0
    for tmpl, want in templates():
        nt += 1
        inp, c2, t2 = copy.deepcopy(INPUT), copy.deepcopy(CTX), copy.deepcopy(tmpl)
        try:
            got = ("value", sp.evaluate_payload_template(inp, c2, t2))
        except ex.IntrinsicFailure:
            got = ("fail", "INTRFAIL")
        except (ex.PathMatchFailure, ex.ParameterPathFailure):
            got = ("fail", "PATHFAIL")
        except Exception as e:
            got = ("raise", type(e).__name__)
        if isinstance(want, tuple) and want[0] == "unspecified":
            if got[0] == "raise":
                pass
            continue
        w = ("fail", want[1]) if isinstance(want, tuple) else ("value", INPUT if want == "INPUT" else want)
        ok = got[0] == w[0] and (json.dumps(got[1], sort_keys=True) == json.dumps(w[1], sort_keys=True))
        if inp != INPUT or c2 != CTX or t2 != tmpl:
            ok = False
        if ok and got[0] == "value" and isinstance(got[1], (dict, list)) and t2 is not None:
            # mutate the result everywhere: the template must not change (no shared sub-structure)
            def scribble(x):
                if isinstance(x, dict):
                    for v in list(x.values()):
                        scribble(v)
                    x["__scribble__"] = 1
                elif isinstance(x, list):
                    for v in x:
                        scribble(v)
                    x.append("__scribble__")
            scribble(got[1])
            if t2 != tmpl:
                ok = False
        if not ok:
            sig = "template|%s" % ("raises-" + got[1] if got[0] == "raise" else "wrong")
            cr.add(sig, "template %s -> %r, expected %r" % (json.dumps(tmpl), got, w), {"kind": "template", "property": PROP, "signature": sig, "template": tmpl}, size=len(json.dumps(tmpl)))
    # hash-seed independence: the same corpus in three interpreters
    digests = {}
    for hs in ("0", "1", "2"):
        env = dict(os.environ, PYTHONHASHSEED=hs)
        out = subprocess.run([sys.executable, "-c", "import sys; sys.path.insert(0, %r); from checks import c13; d, rows = c13.seed_digest(%r); import json; print(json.dumps([d, rows]))" % (common.VERIF, tier)],
                             env=env, capture_output=True, text=True, cwd=common.VERIF)
        if out.returncode != 0:
            raise RuntimeError("seed sub-process failed: " + out.stderr[-400:])
        digests[hs] = json.loads(out.stdout.strip().splitlines()[-1])
    base = digests["0"][1]
    seed_exprs = [e for e in exs if "UUID" not in e and "MathRandom" not in e]
    for hs in ("1", "2"):
        for e, a, b in zip(seed_exprs, base, digests[hs][1]):
            if a != b:
                fn = e.split("(")[0]
                sig = "intrinsic|%s|depends-on-hash-seed" % fn
                cr.add(sig, "%s -> %s under PYTHONHASHSEED=0 but %s under PYTHONHASHSEED=%s" % (e, a, b, hs), {"kind": "expr", "property": PROP, "signature": sig, "expr": e}, size=len(e))
    cr.coverage = {
        "evaluations": n + nt, "distinct_nontrivial": judged,
        "rule": "every function of the intrinsic grammar x 0..arity+1 arguments x argument kinds {int, float, quoted strings incl. , ) ( escaped apostrophe { } ^ ] - , null/true/false, path hit/miss, context path, "
                "nested calls to depth 2} plus malformed call texts; %d payload templates of depth <= 2 mixing literal and '.$' members (incl. arrays); each evaluated by the real evaluate_payload_template and by "
                "ref/template.py (real tokenizer + recursive-descent parser); value equality (JSON-typed), failure class, argument immutability; the corpus re-evaluated under PYTHONHASHSEED 0/1/2. "
                "judged = the definitions determine the result" % nt,
        "samples": [exs[10], exs[n // 2], exs[-3]], "exhaustive": True, "hash_seeds": ["0", "1", "2"],
    }
    cr.assumptions = ["reference ref/template.py written from the States Language appendix B / AWS intrinsic function definitions; results the definitions leave open (rendering of non-string, non-integer "
                      "Format arguments, empty fields in StringSplit, random numbers) are not judged"]
    return cr

def replay(rp):
    if rp["kind"] == "expr":
        got, mut = eval_engine(rp["expr"]); want = eval_ref(rp["expr"])
        bad = mut or got[0] in ("raise", "value-not-json") or (want is not None and not agree(got, want))
        print(("REPRODUCED property=C13" if bad else "not reproduced") + ": %s -> %r, definition gives %r" % (rp["expr"], got, want))
        return 1 if bad else 0
    # sequence / template findings: re-run the check's own clauses and report whether the signature shows again
    cr = run("quick", 0)
    bad = rp.get("signature") in cr.findings
    print("REPRODUCED property=C13 " + rp.get("signature", "") if bad else "not reproduced")
    return 1 if bad else 0
