"""
Shared machinery of the checks: parallel scenario exploration, violation clustering by signature, known-finding
matching, replay files, evidence files.
"""
import os, sys, json, time, hashlib, random, multiprocessing, traceback

VERIF = os.path.dirname(os.path.dirname(os.path.abspath(__file__)))
if VERIF not in sys.path:
    sys.path.insert(0, VERIF)

JOBS = int(os.environ.get("VERIF_JOBS", "16"))

ASSUME_SIM = [
    "simulated pika broker (/verif/sim/pika) implements AMQP 0-9-1 / RabbitMQ semantics faithfully: per-queue FIFO, "
    "unacked deliveries requeued as redelivered on connection loss, 406 on unknown delivery tag, mandatory returns, per-message TTL",
    "time model of DESIGN.md 3.4: one callback = one atomic step; a due timer is urgent w.r.t. messages enqueued at or after the step it became due; cross-queue order is free",
    "virtual clock and deterministic uuid4 replace time.time/datetime.now/uuid.uuid4 inside the engine modules",
]

class Finding(object):
    """One violation cluster: signature + the shortest counter-example found for it."""
    def __init__(self, signature, detail, replay):
        self.signature = signature; self.detail = detail; self.replay = replay; self.count = 1

class CheckResult(object):
    def __init__(self, prop, level="model_checking"):
        self.prop = prop
        self.level = level
        self.coverage = {}
        self.assumptions = []
        self.findings = {}      # signature -> Finding
        self.notes = []
    def add(self, signature, detail, replay, size=None):
        f = self.findings.get(signature)
        if f is None:
            self.findings[signature] = Finding(signature, detail, replay)
        else:
            f.count += 1
            if size is not None and size < f.replay.get("_size", 1 << 30):
                f.detail = detail; f.replay = replay
        if size is not None:
            self.findings[signature].replay["_size"] = min(size, self.findings[signature].replay.get("_size", 1 << 30))

# ------------------------------------------------------------------------------------------------------
def _explore_job(args):
    (mod_name, factory_name, scenario, bound, limits) = args
    try:
        import importlib
        if scenario.get("tz"):
            import time as _t
            os.environ["TZ"] = scenario["tz"]; _t.tzset()
        from harness.explorer import explore
        mod = importlib.import_module(mod_name)
        factory = getattr(mod, factory_name)
        known = load_known()
        def listed(v):
            # a recorded known finding (of whatever property): it also occurs on the unchanged tree, so it is no reason to cut a search short
            sig = signature("", scenario.get("family"), v.to_json())
            return any(known_match(dict(k, also_properties=[], property=""), "", sig) for k in known)
        res = explore(scenario, lambda: factory(scenario), bound=bound, listed=listed, **limits)
        viols = []
        for v, trace, path in res.violations:
            viols.append({"v": v.to_json(), "labels": trace, "choices": path})
        if scenario.get("tz"):
            os.environ["TZ"] = "UTC"; _t.tzset()
        return {"name": scenario["name"], "family": scenario.get("family"), "states": res.states,
                "transitions": res.transitions, "executions": res.executions, "max_depth": res.max_depth,
                "caps": res.caps, "outcomes": len(res.outcomes), "outcome_keys": list(res.outcomes)[:4], "violations": viols, "paths": res.replays + 1,
                "wall": res.wall, "bound": bound, "sample": res.sample_paths[:1], "replays": res.replays}
    except Exception as e:
        return {"name": scenario.get("name"), "error": "%s: %s\n%s" % (type(e).__name__, e, traceback.format_exc())}

def explore_many(mod_name, factory_name, jobs_list, seed=0, jobs=JOBS):
    """jobs_list: [(scenario, bound, limits)].  Runs them over a process pool; order is seed-permuted only."""
    order = list(range(len(jobs_list)))
    random.Random(seed).shuffle(order)
    args = [(mod_name, factory_name, jobs_list[i][0], jobs_list[i][1], jobs_list[i][2]) for i in order]
    if jobs <= 1 or len(args) <= 1:
        outs = [_explore_job(a) for a in args]
    else:
        ctx = multiprocessing.get_context("fork")
        with ctx.Pool(min(jobs, len(args))) as pool:
            outs = pool.map(_explore_job, args, chunksize=1)
    res = [None] * len(jobs_list)
    for i, o in zip(order, outs):
        res[i] = o
    errs = [o for o in res if "error" in o]
    if errs:
        raise RuntimeError("harness error in %s: %s" % (errs[0]["name"], errs[0]["error"]))
    return res

def site_fn(site):
    if not site:
        return "-"
    fn = site[1]
    return fn.replace("StateEngine.notify.<locals>.", "").replace("TaskDispatcher.execute_task.<locals>.", "execute_task.").replace(".<locals>", "")

def signature(prop, family, v):
    """(monitor, kind, scenario family, engine function issuing the offending operation, kind-specific extra)."""
    extra = v.get("extra") or {}
    ex = ",".join("%s=%s" % (k, extra[k]) for k in sorted(extra) if k in ("queue", "state", "attr", "timer", "error", "first", "second", "what", "index", "in"))
    return "%s|%s|%s|%s|%s" % (v["monitor"], v["kind"], family, site_fn(v.get("site")), ex)

def collect(cr, outs, scen_by_name, props_of, monitor_set):
    """Fold explore_many output into a CheckResult.  props_of(vjson) -> bool: is this violation relevant here."""
    tot = {"states": 0, "transitions": 0, "executions": 0, "max_depth": 0, "scenarios": len(outs), "capped": [],
           "closed": 0, "bounded": 0, "multi_outcome_scenarios": 0, "replays": 0}
    samples = []
    for o in outs:
        tot["states"] += o["states"]; tot["transitions"] += o["transitions"]; tot["executions"] += o["executions"]
        tot["max_depth"] = max(tot["max_depth"], o["max_depth"]); tot["replays"] += o["replays"]; tot["paths"] = tot.get("paths", 0) + o["paths"]
        if o["caps"]:
            tot["capped"].append({"scenario": o["name"], "caps": sorted(set(o["caps"]))})
        if o["bound"] is None and not o["caps"]:
            tot["closed"] += 1
        else:
            tot["bounded"] += 1
        if o["outcomes"] > 1:
            tot["multi_outcome_scenarios"] += 1
        if o["sample"] and len(samples) < 3:
            samples.append({"scenario": o["name"], "events": o["sample"][0][0][:40]})
        for item in o["violations"]:
            v = item["v"]
            if not props_of(v):
                continue
            sig = signature(cr.prop, o["family"], v)
            replay = {"kind": "engine", "property": cr.prop, "signature": sig, "monitors": monitor_set,
                      "scenario": scen_by_name[o["name"]], "labels": item["labels"], "violation": v}
            cr.add(sig, v["detail"], replay, size=len(item["labels"]))
    if not samples:
        # every path was cut by a violation: show the (real, replayed) traces that led to violations instead
        for o in outs:
            for item in o["violations"][:1]:
                if len(samples) < 3:
                    samples.append({"scenario": o["name"], "events": item["labels"][:40], "ended_in_violation": True})
    return tot, samples

# ------------------------------------------------------------------------------------------------------
def load_known():
    path = os.path.join(VERIF, "known_findings.jsonl")
    known = []
    if os.path.exists(path):
        for line in open(path):
            line = line.strip()
            if line and not line.startswith("#") and not line.startswith("fixed:"):
                known.append(json.loads(line))
    return known

def known_match(k, prop, sig):
    """An open entry matches a violation signature exactly, or - for a schedule-dependent root cause that shows up
    under many scenario families - through a field pattern: signature = monitor|kind|family|site|extra."""
    import re
    if prop not in ([k.get("property")] + list(k.get("also_properties", []))) or k.get("status", "open") != "open":
        return False
    if "signature" in k:
        return k["signature"] == sig
    m = k.get("match")
    if not m:
        return False
    parts = sig.split("|")
    if len(parts) < 5:
        return False
    fields = {"monitor": parts[0], "kind": parts[1], "family": parts[2], "site": parts[3], "extra": "|".join(parts[4:])}
    for f, pat in m.items():
        if not re.search(pat, fields.get(f, "")):
            return False
    return True

def finish(cr, tier, seed, t0):
    """Write evidence + replay files, print KNOWN-FINDING / VIOLATION lines, return the exit code."""
    known = load_known()
    open_sigs = {}
    for sig in cr.findings:
        for k in known:
            if known_match(k, cr.prop, sig):
                open_sigs[sig] = k
                break
    unlisted = 0
    printed = set()
    out_base = VERIF
    if os.environ.get("VERIF_REPO", "/repo") != "/repo":
        # a run against a scratch copy (mutant trials) must not overwrite the evidence / replays of /repo
        out_base = os.environ.get("VERIF_SCRATCH_OUT", "/tmp/lsfverif-scratch-out")
    rdir = os.path.join(out_base, "replays", cr.prop)
    os.makedirs(rdir, exist_ok=True)
    for sig in sorted(cr.findings):
        f = cr.findings[sig]
        if sig in open_sigs:
            kf = open_sigs[sig]
            key = kf.get("id") or kf.get("signature")
            if key not in printed:
                printed.add(key)
                print("KNOWN-FINDING: property=%s %s [%s]" % (cr.prop, kf.get("what", f.detail), key))
            continue
        unlisted += 1
        h = hashlib.sha1(sig.encode()).hexdigest()[:12]
        path = os.path.join(rdir, h + ".json")
        rp = dict(f.replay)
        rp.pop("_size", None)
        with open(path, "w") as fp:
            json.dump(rp, fp, indent=1, default=_jd)
        print("VIOLATION property=%s replay=%s" % (cr.prop, path))
        print("  signature: %s" % sig)
        print("  detail: %s (x%d)" % (f.detail, f.count))
    for n in cr.notes:
        print("note: " + n)
    ev = {
        "property_id": cr.prop, "tier": tier, "seed": seed, "level": cr.level,
        "coverage": cr.coverage, "assumptions": cr.assumptions, "wall_s": round(time.time() - t0, 2),
        "violations": unlisted,
    }
    ev["coverage"]["known_findings_seen"] = sorted(s for s in cr.findings if s in open_sigs)
    edir = os.path.join(out_base, "evidence")
    os.makedirs(edir, exist_ok=True)
    with open(os.path.join(edir, cr.prop + ".json"), "w") as fp:
        json.dump(ev, fp, indent=1, default=_jd)
    cov = cr.coverage
    print("%s %s: states=%s transitions=%s executions=%s evaluations=%s violations=%d known=%d wall=%.1fs" % (
        cr.prop, tier, cov.get("states"), cov.get("transitions"), cov.get("traces_validated_against_impl"),
        cov.get("evaluations"), unlisted, len(cr.findings) - unlisted, time.time() - t0))
    return 1 if unlisted else 0

def _jd(o):
    if isinstance(o, (bytes, bytearray)):
        return o.decode("utf8", "replace")
    if isinstance(o, (set, frozenset, tuple)):
        return list(o)
    return repr(o)

# ------------------------------------------------------------------------------------------------------
def annotate(sc, inband=True):
    """Attach the reference outcome of every scripted start to the scenario (scenario['expect'])."""
    from ref import asl as RA
    from harness.world import exec_arn
    import copy
    exp = {}
    tasks = RA.ScriptedTasks(sc.get("workers", {}))
    for s in sc.get("starts", []):
        arn = exec_arn(s["machine"], s["name"])
        d = sc["machines"][s["machine"]]["definition"]
        try:
            strict = RA.run(d, copy.deepcopy(s.get("input", {})), RA.ScriptedTasks(sc.get("workers", {})),
                            context={"Execution": {"Input": copy.deepcopy(s.get("input", {})), "Name": s["name"]}, "__epoch": 1900000000.0},
                            exec_timeout=sc.get("execution_ttl", 300))
            exp[arn] = {"status": strict.status, "output": strict.output, "error": strict.error, "end_time": strict.end_time,
                        "task_log": [[a, list(map(list, b)), c, t] for a, b, c, t in strict.task_log]}
        except RA.Unjudged as e:
            exp[arn] = {"status": None, "why": str(e)}
        if sc.get("schedule") == "timed":
            exp[arn] = {"status": None, "why": "timed schedule class: the environment may be arbitrarily slow, the prompt-delivery reference does not apply"}
        if sc.get("expect_any_error"):
            exp[arn] = {"status": "FAILED", "errors": sc["expect_any_error"]}
            if any(k in json.dumps(d) for k in ('"Catch"',)):
                exp[arn] = {"status": None, "why": "several failures with a catcher: outcome depends on which failure is first"}
    sc["expect"] = exp
    return sc

def engine_check(prop, scs, monitors, tier, seed, bound_for=None, limits=None, monset="full", extra_cov=None):
    """Explore every scenario (closed unless bound_for(sc) says otherwise) with the full monitor set; keep the
    violations of `monitors`."""
    cr = CheckResult(prop)
    limits = limits or {"max_states": 30000 if tier == "quick" else 400000, "max_depth": 400}
    for sc in scs:
        if "expect" not in sc:
            annotate(sc)
    limits = dict(limits, only=list(monitors))
    jobs = [(sc, bound_for(sc) if bound_for else None, limits) for sc in scs]
    outs = explore_many("checks.monsets", monset, jobs, seed)
    tot, samples = collect(cr, outs, {s["name"]: s for s in scs}, lambda v: v["monitor"] in monitors, monset)
    vac = [o["name"] for o in outs if o["executions"] > 1 and o["outcomes"] == 1 and o["states"] < 5]
    cr.coverage = {
        "states": tot["states"], "transitions": tot["transitions"], "traces_validated_against_impl": tot["paths"],
        "quiescent_states_reached": tot["executions"],
        "samples": samples, "scenarios": tot["scenarios"], "closed_scenarios": tot["closed"], "bounded_scenarios": tot["bounded"],
        "capped": tot["capped"], "max_depth": tot["max_depth"], "multi_outcome_scenarios": tot["multi_outcome_scenarios"],
        "exhaustive": not tot["capped"] and tot["bounded"] == 0, "monitors": list(monitors),
        "per_scenario": [{"scenario": o["name"], "states": o["states"], "transitions": o["transitions"], "complete_executions": o["executions"],
                          "bound": o["bound"], "caps": sorted(set(o["caps"]))} for o in outs],
    }
    if extra_cov:
        cr.coverage.update(extra_cov)
    cr.assumptions = list(ASSUME_SIM) + ["reference interpreter ref/asl.py for the differential clauses"]
    return cr
