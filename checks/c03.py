"""C03 - events are acked once, after their consequences are issued; nothing leaks (DESIGN.md C03)."""
from . import common
from harness import corpus
PROP = "C03"
MONITORS = ("M-carry", "M-drain")
# the drain clause after a recovery (orphaned replies and the re-armed timers of redelivered Task events exist only then): C04's crash
# points between two atomic steps (plain / head messages in flight / slow start-up) of its single-level scenarios - a crash *inside* a
# step legitimately duplicates an event (at-least-once delivery), and what the nested fan-outs lose is C04's known finding
CRASH_SCENARIOS = ("crash-pass-task-pass", "crash-wait", "crash-task-retry", "crash-parallel-tasks", "crash-map-maxconc", "crash-task-catch", "crash-stale-reply",
                   "crash-parallel-wait-end", "crash-parallel-pass-end", "crash-map-wait-items", "crash-sync-child-named", "crash-sync-child-unnamed")
CRASH_VARIANTS = ("between", "inflight", "slowboot")
def scenarios(tier):
    return (corpus.handler_coverage_corpus() + corpus.poison_corpus() + corpus.seq_family(tier) + corpus.fanout_ok_family(tier)
            + corpus.fanout_fail_family(tier) + corpus.bystander_family(tier))
def run(tier, seed):
    cr = common.engine_check(PROP, scenarios(tier), MONITORS, tier, seed)
    from . import c04
    # (the same job set in both tiers: C04's own thorough tier explores the deeper recovery space)
    jobs, by_name, npoints, scs = c04.build_jobs("quick", MONITORS, names=CRASH_SCENARIOS, variants=CRASH_VARIANTS)
    outs = common.explore_many("checks.monsets", "crash", jobs, seed)
    tot, samples = common.collect(cr, outs, by_name, lambda v: v["monitor"] in MONITORS, "crash")
    cov = cr.coverage
    cov["states"] += tot["states"]; cov["transitions"] += tot["transitions"]; cov["traces_validated_against_impl"] += tot["paths"]
    cov["quiescent_states_reached"] += tot["executions"]
    cov["capped"] = cov["capped"] + tot["capped"]
    cov["exhaustive"] = cov["exhaustive"] and not tot["capped"] and tot["bounded"] == 0
    cov["after_recovery"] = {"scenarios": len(scs), "explorations": len(jobs), "states": tot["states"], "transitions": tot["transitions"],
                             "crash_point_kinds": list(CRASH_VARIANTS), "closed_explorations": tot["closed"], "bounded_explorations": tot["bounded"]}
    return cr
