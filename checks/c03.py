"""C03 - events are acked once, after their consequences are issued; nothing leaks (DESIGN.md C03)."""
from . import common
from harness import corpus
PROP = "C03"
MONITORS = ("M-carry", "M-drain")
def scenarios(tier):
    return (corpus.handler_coverage_corpus() + corpus.poison_corpus() + corpus.seq_family(tier) + corpus.fanout_ok_family(tier)
            + corpus.fanout_fail_family(tier) + corpus.bystander_family(tier))
def run(tier, seed):
    return common.engine_check(PROP, scenarios(tier), MONITORS, tier, seed)
