"""C03 - events are acked once, after their consequences are issued; nothing leaks (DESIGN.md C03)."""
import time
from . import common
from harness import corpus

PROP = "C03"
MONITORS = ("M-carry", "M-drain")

def scenarios(tier):
    scs = corpus.handler_coverage_corpus() + corpus.poison_corpus()
    return scs

def run(tier, seed):
    cr = common.CheckResult(PROP)
    scs = scenarios(tier)
    limits = {"max_states": 20000 if tier == "quick" else 200000, "max_depth": 300}
    jobs = [(sc, None, limits) for sc in scs]
    outs = common.explore_many("checks.monsets", "base", jobs, seed)
    tot, samples = common.collect(cr, outs, {s["name"]: s for s in scs}, lambda v: v["monitor"] in MONITORS, "base")
    cr.coverage = {
        "states": tot["states"], "transitions": tot["transitions"],
        "traces_validated_against_impl": tot["executions"], "samples": samples,
        "scenarios": tot["scenarios"], "closed_scenarios": tot["closed"], "bounded_scenarios": tot["bounded"],
        "capped": tot["capped"], "max_depth": tot["max_depth"], "multi_outcome_scenarios": tot["multi_outcome_scenarios"],
        "exhaustive": not tot["capped"],
        "explanation": "every interleaving of deliveries, worker replies and timers of each scenario (closed, "
                       "fingerprint-deduplicated); M-carry evaluated after every basic_ack, M-drain at quiescence",
    }
    cr.assumptions = list(common.ASSUME_SIM)
    return cr
