"""setup_cmd: nothing is installed; byte-compile /verif, self-test the time model against a real asyncio loop and the references."""
import os, sys, compileall, asyncio, socket

VERIF = os.path.dirname(os.path.dirname(os.path.abspath(__file__)))

def time_model_selftest():
    """A call_later(0) armed inside a reader callback runs after data already readable at the next poll and before
    data sent as a consequence of the timer (DESIGN.md 3.4 rule 3)."""
    loop = asyncio.new_event_loop()
    a1, b1 = socket.socketpair(); a2, b2 = socket.socketpair(); a3, b3 = socket.socketpair()
    for s in (a1, b1, a2, b2, a3, b3):
        s.setblocking(False)
    order = []
    def timer():
        order.append("timer")
        b3.send(b"z")           # a consequence of the timer
    def r1():
        a1.recv(10); order.append("r1")
        loop.call_later(0, timer)
    def r2():
        a2.recv(10); order.append("r2")
    def r3():
        a3.recv(10); order.append("r3"); loop.stop()
    loop.add_reader(a1, r1); loop.add_reader(a2, r2); loop.add_reader(a3, r3)
    b1.send(b"x"); b2.send(b"y")    # both readable in the same poll
    loop.run_forever()
    loop.close()
    ok = order.index("timer") < order.index("r3") and "r2" in order
    return ok, order

def main():
    ok = compileall.compile_dir(VERIF, quiet=1, maxlevels=6)
    t_ok, order = time_model_selftest()
    print("time-model selftest:", "ok" if t_ok else "FAILED", order)
    rc = 0 if (ok and t_ok) else 1
    try:
        from ref import selftest
        r_ok = selftest.main()
        rc = rc or (0 if r_ok else 1)
    except ImportError:
        pass
    return rc
