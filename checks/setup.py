"""setup_cmd: nothing is installed; byte-compile /verif, self-test the time model against a real asyncio loop and the references."""
import os, sys, compileall, asyncio, socket

VERIF = os.path.dirname(os.path.dirname(os.path.abspath(__file__)))

def time_model_selftest():
    """A call_later(0) armed inside a reader callback runs after data already readable at the next poll and before
    data sent as a consequence of the timer (DESIGN.md 3.4 rule 3)."""
    loop = asyncio.new_event_loop()
    a1, b1 = socket.socketpair(); a2, b2 = socket.socketpair(); a3, b3 = socket.socketpair()
    for s in (a1, b1, a2, b2, a3, b3):
        s.setblocking(False)
    order = []
    def timer():
        order.append("timer")
        b3.send(b"z")           # a consequence of the timer
    def r1():
        a1.recv(10); order.append("r1")
        loop.call_later(0, timer)
    def r2():
        a2.recv(10); order.append("r2")
    def r3():
        a3.recv(10); order.append("r3"); loop.stop()
    loop.add_reader(a1, r1); loop.add_reader(a2, r2); loop.add_reader(a3, r3)
    b1.send(b"x"); b2.send(b"y")    # both readable in the same poll
    loop.run_forever()
    loop.close()
    ok = order.index("timer") < order.index("r3") and "r2" in order
    return ok, order

DETERMINISM_PROBE = r"""
import sys, json, hashlib
sys.path.insert(0, %r)
from checks import common, monsets
from harness import corpus, explorer, fingerprint as F
fps = []
orig = F.fingerprint
def fp(w):
    v = orig(w); fps.append(json.dumps([list(l) for l in w.trace]) + v); return v
explorer.fingerprint = fp
tot = []
for name in ("by+parallel-next", "by+task-retry-then-ok"):
    sc = [s for s in corpus.bystander_family("quick") if s["name"] == name][0]
    common.annotate(sc)
    r = explorer.explore(sc, lambda: monsets.full(sc), bound=None, max_states=30000, only=["M-life"])
    tot.append([r.states, r.transitions, r.executions, sorted(r.outcomes)])
print(hashlib.sha1((json.dumps(tot) + "".join(sorted(fps))).encode()).hexdigest(), tot[0][:3], tot[1][:3])
"""

def determinism_selftest():
    """Two fresh interpreters explore the same two scenarios (a Wait canceller, a retry timer, heart-beats, a bystander): the set of
    (event trace, state fingerprint) pairs, the state / transition counts and the outcomes must be identical - nothing the
    harness does not own (addresses, hash seeds, file names, garbage collection) may reach a fingerprint or an enabled set."""
    import subprocess
    env = dict(os.environ, PYTHONHASHSEED="0", LOG_LEVEL="CRITICAL")
    outs = []
    for i in range(2):
        env["PYTHONHASHSEED"] = "0"
        p = subprocess.run([sys.executable, "-c", DETERMINISM_PROBE % VERIF], env=env, stdout=subprocess.PIPE, stderr=subprocess.PIPE, cwd=VERIF)
        outs.append(p.stdout.decode().strip() or p.stderr.decode()[-300:])
    return outs[0] == outs[1] and len(outs[0].split()) > 1, outs

def main():
    ok = compileall.compile_dir(VERIF, quiet=1, maxlevels=6)
    d_ok, outs = determinism_selftest()
    print("determinism selftest:", "ok" if d_ok else "FAILED", outs[0][:120] if d_ok else outs)
    ok = ok and d_ok
    t_ok, order = time_model_selftest()
    print("time-model selftest:", "ok" if t_ok else "FAILED", order)
    rc = 0 if (ok and t_ok) else 1
    try:
        from ref import selftest
        r_ok = selftest.main()
        rc = rc or (0 if r_ok else 1)
    except ImportError:
        pass
    return rc
