"""C11 - all observability surfaces tell the same story about an execution."""
import json
from . import common
from harness import corpus
PROP = "C11"
MONITORS = ("M-views",)
def scenarios(tier):
    return corpus.handler_coverage_corpus() + corpus.seq_family(tier) + corpus.fanout_ok_family(tier) + corpus.fanout_fail_family(tier) + corpus.bystander_family(tier) + corpus.observability_family(tier) + corpus.store_config_family(tier)

def sync_api_cases(tier):
    """The answer of StartSyncExecution is one more view of an (EXPRESS) execution: it must tell what the terminal notification tells,
    with its dates in epoch seconds (the notification carries the same instants in milliseconds)."""
    from harness.corpus import chain, Pass, Wait, Fail, Task
    out = []
    machines = {"echo": chain(("A", Pass()), ("Z", Pass())), "wait": chain(("W", Wait(2)), ("Z", Pass(Result={"done": True}, ResultPath="$.r"))),
                "fail": chain(("A", Pass()), ("F", Fail("E.f", "because"))), "task": chain(("T", Task("f1")), ("Z", Pass()))}
    for mname, d in machines.items():
        for inp in ({"a": 1}, [], 0, "s", {}):
            if mname in ("wait", "task") and not isinstance(inp, dict):
                continue
            out.append((mname, d, inp))
    return out

def _sync_case(args):
    mname, d, inp = args
    from harness.world import World, sm_arn
    from harness.api import ApiClient
    w = World({"name": "c11-sync", "machines": {"m": {"definition": d, "type": "EXPRESS"}}, "workers": {"f1": {"*": [["ok", {"r": 1}]]}}, "record_sites": False})
    api = ApiClient(w)
    task = api.start_async("StartSyncExecution", {"stateMachineArn": sm_arn("m"), "name": "s1", "input": json.dumps(inp)})
    w.run(max_steps=500)
    r = api.finish(task)
    bad = []
    term = [n for n in w.notes if n["body"]["detail"]["status"] != "RUNNING"]
    if not r or r[0] != 200 or not isinstance(r[1], dict):
        bad.append("no answer / not 200: %r" % (r and r[:2],))
    elif len(term) != 1:
        bad.append("%d terminal notifications" % len(term))
    else:
        a, n = r[1], term[0]["body"]["detail"]
        for f in ("executionArn", "stateMachineArn", "name", "status", "input", "output", "error", "cause"):
            if a.get(f) != n.get(f):
                bad.append("%s: answer %r, notification %r" % (f, a.get(f), n.get(f)))
        for f in ("startDate", "stopDate"):
            av, nv = a.get(f), n.get(f)
            if av is None or nv is None or isinstance(av, bool) or abs(av * 1000 - nv) >= 1.0:
                bad.append("%s: answer %r (must be epoch seconds), notification %r ms" % (f, av, nv))
    w.close()
    return bad

def run(tier, seed):
    cr = common.engine_check(PROP, scenarios(tier), MONITORS, tier, seed)
    cases = sync_api_cases(tier)
    for c in cases:
        for b in _sync_case(c)[:1]:
            sig = "sync-answer|%s|%s" % (c[0], b.split(":")[0])
            cr.add(sig, "StartSyncExecution of machine %s with input %s: %s" % (c[0], json.dumps(c[2]), b), {"kind": "sync", "property": PROP, "signature": sig, "case": [c[0], c[1], c[2]]}, size=len(json.dumps(c[2])))
    cr.coverage["sync_api_answers_compared"] = len(cases)
    return cr

def replay(rp):
    if rp.get("kind") == "sync":
        bad = _sync_case(tuple(rp["case"]))
        print(("REPRODUCED property=C11 %r" % bad) if bad else "not reproduced")
        return 1 if bad else 0
    from . import replay as R
    return R.engine_replay(rp)
