"""C11 - all observability surfaces tell the same story about an execution."""
from . import common
from harness import corpus
PROP = "C11"
MONITORS = ("M-views",)
def scenarios(tier):
    return corpus.handler_coverage_corpus() + corpus.seq_family(tier) + corpus.fanout_ok_family(tier) + corpus.fanout_fail_family(tier) + corpus.bystander_family(tier) + corpus.observability_family(tier) + corpus.store_config_family(tier)
def run(tier, seed):
    return common.engine_check(PROP, scenarios(tier), MONITORS, tier, seed)
