"""
In-memory stand-in for the parts of redis-py that asl_workflow_engine.store touches, over one simulated server with
server-assisted client-side caching (CLIENT TRACKING ... REDIRECT): invalidation messages are *queued* per tracker
client and reach the subscriber's handler only when the harness calls Server.deliver_invalidation().  Trusted base of C20.
"""
import fnmatch, threading, json

class Server(object):
    def __init__(self):
        self.data = {}          # key(str) -> ["hash", dict] | ["list", list] | ["string", value]
        self.ttl = {}           # key -> seconds
        self.next_client = 0
        self.tracking = {}      # client id -> redirect client id
        self.read_keys = {}     # client id -> set of keys it has read while tracking
        self.subscribers = {}   # client id -> PubSub
        self.pending = {}       # redirect client id -> list of invalidated keys (each a list of bytes)
        self.scan_page = 2
        self.lock = threading.RLock()
        self.version = "7.0.0"

    def new_client(self):
        self.next_client += 1
        return self.next_client

    # -- data access used by the simulated pottery containers and by Redis commands ----------------
    def read(self, client, key):
        if client in self.tracking:
            self.read_keys.setdefault(client, set()).add(key)
        return self.data.get(key)

    def wrote(self, key):
        """Every tracked client that has read `key` gets an invalidation (once; the server then forgets the key)."""
        for client, keys in self.read_keys.items():
            if key in keys and client in self.tracking:
                keys.discard(key)
                self.pending.setdefault(self.tracking[client], []).append([key.encode("utf8")])

    def set_value(self, key, kind, value):
        if (kind == "hash" and not value) or (kind == "list" and not value):
            self.delete(key)
            return
        self.data[key] = [kind, value]
        self.wrote(key)

    def delete(self, key):
        existed = key in self.data
        self.data.pop(key, None)
        self.ttl.pop(key, None)
        if existed:
            self.wrote(key)
        return existed

    def deliver_invalidation(self, redirect_id):
        """Hand the oldest queued invalidation message to the subscriber of `redirect_id`."""
        q = self.pending.get(redirect_id) or []
        if not q:
            return False
        keys = q.pop(0)
        ps = self.subscribers.get(redirect_id)
        if ps is not None:
            ps.dispatch("__redis__:invalidate", keys)
        return True

    def deliver_invalidation_batch(self, redirect_id):
        """Hand every queued invalidation to the subscriber as ONE message naming all the keys (the message data is an
        array of keys; the server coalesces keys in broadcasting mode and redis-py may hand over several at once)."""
        q = self.pending.get(redirect_id) or []
        if not q:
            return False
        keys = [k for m in q for k in m]
        del q[:]
        ps = self.subscribers.get(redirect_id)
        if ps is not None:
            ps.dispatch("__redis__:invalidate", keys)
        return True

    def snapshot(self):
        return (json.loads(json.dumps(self.data)), dict(self.ttl), {c: set(k) for c, k in self.read_keys.items()},
                {c: [list(x) for x in q] for c, q in self.pending.items()})

    def restore(self, snap):
        self.data = json.loads(json.dumps(snap[0])); self.ttl = dict(snap[1])
        self.read_keys = {c: set(k) for c, k in snap[2].items()}
        self.pending = {c: [list(x) for x in q] for c, q in snap[3].items()}

SERVER = Server()

def reset_server():
    global SERVER
    SERVER = Server()
    return SERVER

class ConnectionPool(object):
    def __init__(self, url=None):
        self.url = url

class ConnectionError(Exception):
    pass

class PubSub(object):
    def __init__(self, client, ignore_subscribe_messages=False):
        self.client = client
        self.handlers = {}
        self.plain = set()
        self.event = threading.Event()
        self.listening = threading.Event()
        self.nobody_listens = False
        self.closed = False
        client.server.subscribers[client.id] = self

    def subscribe(self, *channels, **handlers):
        for ch, h in handlers.items():
            self.handlers[ch] = h
            self.plain.discard(ch)
        for ch in channels:
            self.handlers.pop(ch, None)
            self.plain.add(ch)

    def dispatch(self, channel, data):
        h = self.handlers.get(channel)
        msg = {"type": "message", "pattern": None, "channel": channel.encode(), "data": data}
        if h is not None:
            # as in the real client, handlers run inside listen() / get_message(): a subscription nobody reads from handles nothing
            # (the reader is another thread: give it a moment to arrive, once)
            if not self.listening.is_set() and not self.nobody_listens:
                if not self.listening.wait(0.5):
                    self.nobody_listens = True
            if self.listening.is_set():
                h(msg)
        elif channel in self.plain:
            self.queue = msg
            self.event.set()

    def listen(self):
        # parked until a message arrives on a channel that has no handler (that is how the store unblocks it)
        self.listening.set()
        self.event.wait()
        yield getattr(self, "queue", None)

    def close(self):
        self.closed = True
        self.event.set()

class Redis(object):
    def __init__(self, connection_pool=None, **kw):
        self.connection_pool = connection_pool or ConnectionPool()
        # a client belongs to the server that existed when it connected: whatever a long-dead client does later (its
        # store's destructor runs whenever the garbage collector gets to it) must not reach the server of another run
        self.server = SERVER
        self.id = self.server.new_client()
        self.closed = False

    @classmethod
    def from_url(cls, url, **kw):
        if not url.startswith("redis://"):
            raise ValueError("Redis URL must specify one of the following schemes (redis://, rediss://, unix://)")
        return cls(connection_pool=ConnectionPool(url))

    def ping(self):
        return True

    def info(self, section=None):
        return {"redis_version": self.server.version}

    def client_id(self):
        return self.id

    def execute_command(self, *args):
        a = [str(x).upper() if isinstance(x, str) else x for x in args]
        if a[:3] == ["CLIENT", "TRACKING", "ON"]:
            self.server.tracking[self.id] = int(args[4]) if len(args) > 4 else self.id
            return b"OK"
        if a[:3] == ["CLIENT", "TRACKING", "OFF"]:
            self.server.tracking.pop(self.id, None)
            self.server.read_keys.pop(self.id, None)
            return b"OK"
        raise NotImplementedError(args)

    def delete(self, *keys):
        n = 0
        for k in keys:
            n += 1 if self.server.delete(k) else 0
        return n

    def exists(self, *keys):
        return sum(1 for k in keys if k in self.server.data)

    def expire(self, key, seconds):
        if key in self.server.data:
            self.server.ttl[key] = int(seconds)
            return True
        return False

    def ttl(self, key):
        if key not in self.server.data:
            return -2
        return self.server.ttl.get(key, -1)

    def scan(self, cursor=0, match=None, count=None):
        cursor = int(cursor)
        # like the real server: COUNT keys of the *whole* keyspace are examined per call and MATCH is applied afterwards, so a
        # page can come back empty while the cursor is not yet 0 (other stores share the keyspace under other prefixes)
        keys = sorted(self.server.data)
        page = keys[cursor:cursor + self.server.scan_page]
        nxt = cursor + self.server.scan_page
        if nxt >= len(keys):
            nxt = 0
        return nxt, [k.encode("utf8") for k in page if match is None or fnmatch.fnmatchcase(k, match)]

    def pubsub(self, ignore_subscribe_messages=False):
        return PubSub(self, ignore_subscribe_messages)

    def publish(self, channel, message):
        n = 0
        for ps in list(self.server.subscribers.values()):
            if channel in ps.handlers or channel in ps.plain:
                ps.dispatch(channel, message.encode() if isinstance(message, str) else message)
                n += 1
        return n

    def close(self):
        self.closed = True
