"""
In-memory stand-in for the parts of `pika` that asl_workflow_engine touches, on top of one Broker with
AMQP 0-9-1 / RabbitMQ semantics.  Nothing is delivered spontaneously: messages sit in queues until the
harness calls Broker.deliver(); timers fire only when the harness fires them.  Every operation is appended
to Broker.oplog.  This file is part of the *trusted base* of every broker-level claim (DESIGN.md 3.1).
"""
import sys, json, urllib.parse

# --------------------------------------------------------------------------------------------------
class AMQPError(Exception):
    pass
class AMQPConnectionError(AMQPError):
    pass
class IncompatibleProtocolError(AMQPConnectionError):
    pass
class ConnectionClosedByBroker(AMQPConnectionError):
    def __init__(self, reply_code=0, reply_text=""):
        super().__init__(reply_code, reply_text)
        self.reply_code, self.reply_text = reply_code, reply_text
class AMQPChannelError(AMQPError):
    pass
class ChannelClosed(AMQPChannelError):
    def __init__(self, reply_code=0, reply_text=""):
        super().__init__(reply_code, reply_text)
        self.reply_code, self.reply_text = reply_code, reply_text
class ChannelClosedByBroker(ChannelClosed):
    pass
class ChannelWrongStateError(AMQPChannelError):
    pass
class NackError(AMQPChannelError):
    def __init__(self, messages=()):
        super().__init__(messages)
        self.messages = messages
class UnroutableError(AMQPChannelError):
    def __init__(self, messages=()):
        super().__init__(messages)
        self.messages = messages

class CrashNow(BaseException):
    """Raised by the broker from the k-th operation of a step: the engine process dies right there."""

# --------------------------------------------------------------------------------------------------
class BasicProperties(object):
    FIELDS = ("content_type", "content_encoding", "headers", "delivery_mode", "priority", "correlation_id",
              "reply_to", "expiration", "message_id", "timestamp", "type", "user_id", "app_id", "cluster_id")
    def __init__(self, content_type=None, content_encoding=None, headers=None, delivery_mode=None,
                 priority=None, correlation_id=None, reply_to=None, expiration=None, message_id=None,
                 timestamp=None, type=None, user_id=None, app_id=None, cluster_id=None):
        if expiration is not None and not isinstance(expiration, str):
            raise TypeError("expiration must be a str (shortstr), got %r" % (expiration,))
        self.content_type = content_type; self.content_encoding = content_encoding
        self.headers = headers; self.delivery_mode = delivery_mode; self.priority = priority
        self.correlation_id = correlation_id; self.reply_to = reply_to; self.expiration = expiration
        self.message_id = message_id; self.timestamp = timestamp; self.type = type
        self.user_id = user_id; self.app_id = app_id; self.cluster_id = cluster_id
    def as_dict(self):
        return {k: getattr(self, k) for k in self.FIELDS if getattr(self, k) is not None}
    def copy(self):
        d = {k: getattr(self, k) for k in self.FIELDS}
        if isinstance(d["headers"], dict):
            d["headers"] = json.loads(json.dumps(d["headers"]))
        return BasicProperties(**d)

class _Method(object):
    def __init__(self, **kw):
        self.__dict__.update(kw)
class _Frame(object):
    def __init__(self, method):
        self.method = method

class Basic(object):
    class Ack(_Method):
        pass
    class Nack(_Method):
        pass
    class Deliver(_Method):
        pass
    class Return(_Method):
        pass
class Queue_(object):
    class DeclareOk(_Method):
        pass
    class BindOk(_Method):
        pass
class Exchange_(object):
    class DeclareOk(_Method):
        pass

# --------------------------------------------------------------------------------------------------
def topic_match(pattern, key):
    p, k = pattern.split("."), key.split(".")
    def m(i, j):
        if i == len(p):
            return j == len(k)
        if p[i] == "#":
            return any(m(i + 1, jj) for jj in range(j, len(k) + 1))
        if j == len(k):
            return False
        if p[i] == "*" or p[i] == k[j]:
            return m(i + 1, j + 1)
        return False
    # RabbitMQ: an empty routing key is one empty word
    return m(0, 0)

class QMsg(object):
    __slots__ = ("body", "props", "redelivered", "enq_step", "expire_at", "exchange", "routing_key", "seq", "_meta")
    def __init__(self, body, props, exchange, routing_key, enq_step, expire_at, seq):
        self.body = body; self.props = props; self.redelivered = False; self.enq_step = enq_step
        self.expire_at = expire_at; self.exchange = exchange; self.routing_key = routing_key; self.seq = seq
        self._meta = None
    def meta(self):
        """(execution arn or None, parsed body or None), cached."""
        if self._meta is None:
            arn, obj = None, None
            try:
                obj = json.loads(self.body.decode("utf8"))
                arn = obj["context"]["Execution"]["Id"]
            except Exception:
                pass
            self._meta = (arn, obj)
        return self._meta

class SimQueue(object):
    def __init__(self, name, durable, exclusive, auto_delete, arguments, owner=None):
        self.name = name; self.durable = durable; self.exclusive = exclusive
        self.auto_delete = auto_delete; self.arguments = arguments; self.owner = owner
        self.messages = []      # list of QMsg, head at 0
        self.consumers = []     # list of SimConsumer
        self.taps = []          # environment consumers that take a message the moment it is enqueued
        self.rr = 0

class SimConsumer(object):
    def __init__(self, tag, channel, queue, callback, exclusive, arguments, auto_ack, prefetch):
        self.tag = tag; self.channel = channel; self.queue = queue; self.callback = callback
        self.exclusive = exclusive; self.arguments = arguments; self.auto_ack = auto_ack
        self.prefetch = prefetch; self.unacked = 0

class Timer(object):
    __slots__ = ("deadline", "delay", "callback", "seq", "cancelled", "fired", "connection", "arm_step", "due_step", "site")
    def __init__(self, deadline, delay, callback, seq, connection, arm_step, site):
        self.deadline = deadline; self.delay = delay; self.callback = callback; self.seq = seq
        self.cancelled = False; self.fired = False; self.connection = connection
        self.arm_step = arm_step; self.due_step = None; self.site = site
    def cancel(self):
        if not self.fired and not self.cancelled:
            self.cancelled = True
            b = self.connection.broker
            b.log("clear_timeout", timer=self.seq, kind=timer_kind(self.callback))
    @property
    def live(self):
        return not self.cancelled and not self.fired and self.connection.is_open

def timer_kind(cb):
    return getattr(cb, "__qualname__", None) or getattr(getattr(cb, "__func__", None), "__qualname__", repr(cb))

def _call_site():
    """Nearest frame inside asl_workflow_engine/ that is not a messaging module -> (file, function, line)."""
    f = sys._getframe(2)
    first = None
    while f is not None:
        fn = f.f_code.co_filename
        if "asl_workflow_engine" in fn:
            base = fn.rsplit("/", 1)[-1]
            ent = (base, getattr(f.f_code, "co_qualname", f.f_code.co_name), f.f_lineno)
            if first is None:
                first = ent
            if not base.startswith("amqp_0_9_1_messaging") and not (
                    base == "event_dispatcher.py" and f.f_code.co_name in ("publish", "broadcast", "acknowledge")):
                return ent
        f = f.f_back
    return first

class Broker(object):
    """One virtual RabbitMQ."""
    CURRENT = None

    def __init__(self, clock):
        self.clock = clock                 # object with .now
        self.step = 0                      # id of the atomic step being executed (set by the World)
        self.oplog = []
        self.observers = []                # callables(op dict) run after every logged operation
        self.exchanges = {"": {"type": "direct", "durable": True}}
        for n, t in (("amq.direct", "direct"), ("amq.topic", "topic"), ("amq.fanout", "fanout"),
                     ("amq.match", "headers"), ("amq.headers", "headers")):
            self.exchanges[n] = {"type": t, "durable": True, "auto_delete": False, "arguments": None, "internal": False}
        self.queues = {}
        self.bindings = []                 # (exchange, queue, key, arguments)
        self.connections = []
        self.timer_seq = 0
        self.msg_seq = 0
        self.gen_seq = 0
        self.crash_after_ops = None        # k: raise CrashNow right after the k-th op of the current step
        self.ops_in_step = 0
        self.record_sites = True
        self.declared = []                 # declaration log for C19

    # ---- logging -------------------------------------------------------------------------------
    def log(self, op, **kw):
        kw["op"] = op; kw["step"] = self.step
        kw.setdefault("now", self.clock.now)
        if self.record_sites and "site" not in kw:
            kw["site"] = _call_site()
        self.oplog.append(kw)
        for ob in self.observers:
            ob(kw)
        self.ops_in_step += 1
        if self.crash_after_ops is not None and self.ops_in_step >= self.crash_after_ops and op in (
                "publish", "ack", "set_timeout"):
            self.crash_after_ops = None
            raise CrashNow()

    # ---- topology ------------------------------------------------------------------------------
    def declare_queue(self, name, durable=False, exclusive=False, auto_delete=False, arguments=None, owner=None):
        q = SimQueue(name, durable, exclusive, auto_delete, arguments, owner)
        self.queues[name] = q
        return q

    def route(self, exchange, routing_key, headers):
        if exchange == "":
            return [routing_key] if routing_key in self.queues else []
        ex = self.exchanges[exchange]
        out = []
        for (e, q, key, args) in self.bindings:
            if e != exchange or q not in self.queues:
                continue
            t = ex["type"]
            ok = False
            if t == "direct":
                ok = (key == routing_key)
            elif t == "fanout":
                ok = True
            elif t == "topic":
                ok = topic_match(key or "", routing_key or "")
            elif t == "headers":
                args = args or {}
                hs = headers or {}
                items = [(k, v) for k, v in args.items() if not k.startswith("x-")]
                if args.get("x-match", "all") == "any":
                    ok = any(hs.get(k) == v for k, v in items)
                else:
                    ok = all(hs.get(k) == v for k, v in items)
            if ok and q not in out:
                out.append(q)
        return out

    def enqueue(self, qname, body, props, exchange, routing_key):
        q = self.queues[qname]
        expire_at = None
        if props.expiration is not None:
            expire_at = self.clock.now + int(props.expiration) / 1000.0
        self.msg_seq += 1
        m = QMsg(body, props, exchange, routing_key, self.step, expire_at, self.msg_seq)
        if q.taps:
            for tap in q.taps:
                tap(m)
            return
        if expire_at is not None and props.expiration == "0":
            return  # TTL 0: dropped unless immediately deliverable; engine consumers are never "immediate" here
        q.messages.append(m)

    def expire(self):
        """Head-of-queue expiry against the virtual clock."""
        now = self.clock.now
        for q in self.queues.values():
            while q.messages and q.messages[0].expire_at is not None and q.messages[0].expire_at <= now:
                m = q.messages.pop(0)
                self.log("expired", queue=q.name, message_id=m.props.message_id, correlation_id=m.props.correlation_id, site=None)

    # ---- delivery ------------------------------------------------------------------------------
    def deliverable(self, qname):
        """Consumers of qname that may be handed the head message now."""
        q = self.queues.get(qname)
        if not q or not q.messages:
            return []
        # (a consumer whose ConsumeOk has not been handed to the client yet receives nothing: on the wire ConsumeOk precedes the first Deliver)
        return [c for c in q.consumers if c.channel.is_open and getattr(c, "confirmed", True) and (c.prefetch == 0 or c.unacked < c.prefetch)]

    def take(self, qname, consumer):
        """Hand the head message of qname to consumer: returns the bound call to run (or None)."""
        q = self.queues[qname]
        m = q.messages.pop(0)
        ch = consumer.channel
        ch.next_tag += 1
        tag = ch.next_tag
        if not consumer.auto_ack:
            ch.unacked[tag] = (qname, m, consumer)
            consumer.unacked += 1
        self.log("deliver", queue=qname, tag=tag, consumer=consumer.tag, connection=ch.connection.name,
                 message_id=m.props.message_id, correlation_id=m.props.correlation_id,
                 redelivered=m.redelivered, arn=m.meta()[0], site=None)
        method = Basic.Deliver(consumer_tag=consumer.tag, delivery_tag=tag, redelivered=m.redelivered,
                               exchange=m.exchange, routing_key=m.routing_key)
        return lambda: consumer.callback(ch, method, m.props.copy(), m.body)

    def requeue_unacked(self, channel):
        """Connection/channel loss: unacked deliveries return to the head of their queues, flagged redelivered."""
        by_q = {}
        for tag in sorted(channel.unacked):
            qname, m, consumer = channel.unacked[tag]
            by_q.setdefault(qname, []).append(m)
        channel.unacked.clear()
        for qname, ms in by_q.items():
            q = self.queues.get(qname)
            if q is None:
                continue
            for m in ms:
                m.redelivered = True
            q.messages[0:0] = sorted(ms, key=lambda m: m.seq)
            q.messages.sort(key=lambda m: m.seq)   # original queue position
            self.log("requeue", queue=qname, count=len(ms), site=None)

    def drop_connection(self, conn):
        conn.is_open = False
        conn.is_closed = True
        for ch in list(conn.channels):
            ch.is_open = False
            for q in self.queues.values():
                q.consumers = [c for c in q.consumers if c.channel is not ch]
            self.requeue_unacked(ch)
        for qn in [n for n, q in self.queues.items() if q.exclusive and q.owner is conn]:
            del self.queues[qn]
        for t in conn.timers:
            if not t.fired:
                t.cancelled = True
        conn.timers = []
        conn.pending_calls = []
        self.log("connection_lost", connection=conn.name, site=None)

# --------------------------------------------------------------------------------------------------
class _Callbacks(object):
    def __init__(self, channel):
        self.channel = channel
    def remove(self, prefix, key, callback_value=None, arguments=None):
        if key == "_on_channel_close":
            try:
                self.channel._on_close.remove(callback_value)
                return True
            except ValueError:
                return False
        return False

class Channel(object):
    def __init__(self, connection, number):
        self.connection = connection
        self.broker = connection.broker
        self.channel_number = number
        self.is_open = True
        self.is_closed = False
        self.callbacks = _Callbacks(self)
        self._on_close = []
        self._on_return = []
        self.consumers = {}
        self.unacked = {}
        self.next_tag = 0
        self.prefetch = 0
        self.ctag_seq = 0
        self.pending_returns = []   # (method, props, body, enq_step) waiting to travel back to the publisher
        self.confirm = None
        self.publish_seq = 0

    # -- closing ---------------------------------------------------------------------------------
    def _broker_close(self, code, text):
        self.is_open = False
        self.is_closed = True
        b = self.broker
        for q in b.queues.values():
            q.consumers = [c for c in q.consumers if c.channel is not self]
        b.requeue_unacked(self)
        b.log("channel_closed_by_broker", code=code, text=text, channel=self.channel_number,
              connection=self.connection.name)
        err = ChannelClosedByBroker(code, text)
        for cb in list(self._on_close):
            cb(self, err)
        return err

    def close(self, reply_code=0, reply_text="Normal shutdown"):
        if not self.is_open:
            raise ChannelWrongStateError("Channel is closed")
        self.is_open = False
        self.is_closed = True
        for q in self.broker.queues.values():
            q.consumers = [c for c in q.consumers if c.channel is not self]
        self.broker.requeue_unacked(self)
        err = ChannelClosed(reply_code, reply_text)
        for cb in list(self._on_close):
            cb(self, err)

    def _check_open(self):
        if not self.is_open:
            raise ChannelWrongStateError("Channel is closed.")

    def _confirm(self, callback, frame):
        """Hand the broker's confirmation (DeclareOk, BindOk, ConsumeOk, ...) to the client.  Normally at once; while the owning
        connection is marked `defer_confirms` (an instance that is still starting up, slow-start scenarios) the confirmation
        travels like any other frame: it becomes a pending loop callback, so deliveries on queues that already have a consumer
        can be handled before it."""
        if not callback:
            return
        if getattr(self.connection, "defer_confirms", False):
            self.connection.pending_calls.append((lambda: callback(frame), self.broker.step))
        else:
            callback(frame)

    def add_on_close_callback(self, callback):
        self._on_close.append(callback)

    def add_on_return_callback(self, callback):
        self._on_return.append(callback)

    # -- declarations ----------------------------------------------------------------------------
    def exchange_declare(self, exchange, exchange_type="direct", passive=False, durable=False,
                         auto_delete=False, internal=False, arguments=None, callback=None):
        self._check_open()
        b = self.broker
        et = getattr(exchange_type, "value", exchange_type)
        if passive:
            if exchange not in b.exchanges:
                self._broker_close(404, "NOT_FOUND - no exchange '%s' in vhost '/'" % exchange)
                return
        else:
            if exchange in b.exchanges:
                ex = b.exchanges[exchange]
                if exchange == "" or exchange.startswith("amq."):
                    if ex["type"] != et:
                        self._broker_close(403, "ACCESS_REFUSED - exchange name '%s' contains reserved prefix" % exchange)
                        return
                elif (ex["type"], ex["durable"], ex["auto_delete"]) != (et, bool(durable), bool(auto_delete)):
                    self._broker_close(406, "PRECONDITION_FAILED - inequivalent arg for exchange '%s'" % exchange)
                    return
            else:
                if et not in ("direct", "topic", "fanout", "headers"):
                    self.connection._broker_close(503, "COMMAND_INVALID - unknown exchange type '%s'" % et)
                    return
                b.exchanges[exchange] = {"type": et, "durable": bool(durable), "auto_delete": bool(auto_delete),
                                         "internal": bool(internal), "arguments": arguments}
            b.declared.append(("exchange", exchange, et, bool(durable), bool(auto_delete), arguments))
            b.log("exchange_declare", exchange=exchange, type=et, durable=bool(durable), auto_delete=bool(auto_delete))
        self._confirm(callback, _Frame(Exchange_.DeclareOk()))

    def queue_declare(self, queue, passive=False, durable=False, exclusive=False, auto_delete=False,
                      arguments=None, callback=None):
        self._check_open()
        b = self.broker
        if passive:
            if queue not in b.queues:
                self._broker_close(404, "NOT_FOUND - no queue '%s' in vhost '/'" % queue)
                return
            q = b.queues[queue]
        else:
            if queue == "":
                b.gen_seq += 1
                queue = "amq.gen-%04d" % b.gen_seq
            if queue in b.queues:
                q = b.queues[queue]
                if q.exclusive and q.owner is not self.connection:
                    self._broker_close(405, "RESOURCE_LOCKED - cannot obtain exclusive access to locked queue '%s'" % queue)
                    return
                if (q.durable, q.exclusive, q.auto_delete, q.arguments or {}) != (
                        bool(durable), bool(exclusive), bool(auto_delete), arguments or {}):
                    self._broker_close(406, "PRECONDITION_FAILED - inequivalent arg for queue '%s'" % queue)
                    return
            else:
                q = b.declare_queue(queue, bool(durable), bool(exclusive), bool(auto_delete), arguments, self.connection)
            self.last_queue = queue      # AMQP 0-9-1: an empty queue name in bind/consume means the last queue declared on the channel
            b.declared.append(("queue", queue, bool(durable), bool(exclusive), bool(auto_delete), arguments))
            b.log("queue_declare", queue=queue, durable=bool(durable), exclusive=bool(exclusive),
                  auto_delete=bool(auto_delete), arguments=arguments)
        self._confirm(callback, _Frame(Queue_.DeclareOk(queue=queue, message_count=len(q.messages), consumer_count=len(q.consumers))))

    def queue_bind(self, queue, exchange, routing_key=None, arguments=None, callback=None):
        self._check_open()
        b = self.broker
        if queue == "" and getattr(self, "last_queue", None):
            queue = self.last_queue
        if queue not in b.queues:
            self._broker_close(404, "NOT_FOUND - no queue '%s' in vhost '/'" % queue)
            return
        if exchange not in b.exchanges:
            self._broker_close(404, "NOT_FOUND - no exchange '%s' in vhost '/'" % exchange)
            return
        if routing_key is None:
            routing_key = queue
        ent = (exchange, queue, routing_key, arguments)
        if ent not in b.bindings:
            b.bindings.append(ent)
        b.declared.append(("binding", exchange, queue, routing_key, arguments))
        b.log("queue_bind", queue=queue, exchange=exchange, routing_key=routing_key, arguments=arguments)
        self._confirm(callback, _Frame(Queue_.BindOk()))

    def basic_qos(self, prefetch_size=0, prefetch_count=0, global_qos=False, callback=None):
        self._check_open()
        self.prefetch = int(prefetch_count)
        if callback:
            callback(_Frame(_Method()))

    def basic_consume(self, queue, on_message_callback, auto_ack=False, exclusive=False, consumer_tag=None,
                      arguments=None, callback=None):
        self._check_open()
        b = self.broker
        if queue not in b.queues:
            self._broker_close(404, "NOT_FOUND - no queue '%s' in vhost '/'" % queue)
            return
        q = b.queues[queue]
        if q.consumers and (exclusive or any(c.exclusive for c in q.consumers)):
            self._broker_close(403, "ACCESS_REFUSED - queue '%s' in vhost '/' in exclusive use" % queue)
            return
        if not consumer_tag:
            self.ctag_seq += 1
            consumer_tag = "ctag%d.%d.%s" % (self.channel_number, self.ctag_seq, self.connection.name)
        c = SimConsumer(consumer_tag, self, queue, on_message_callback, bool(exclusive), arguments, bool(auto_ack), self.prefetch)
        q.consumers.append(c)
        self.consumers[consumer_tag] = c
        b.declared.append(("consume", queue, bool(exclusive), arguments, self.prefetch))
        b.log("basic_consume", queue=queue, exclusive=bool(exclusive), arguments=arguments, consumer=consumer_tag,
              prefetch=self.prefetch, connection=self.connection.name)
        if getattr(self.connection, "defer_confirms", False) and callback:
            c.confirmed = False
            def consume_ok(frame, c=c, callback=callback):
                c.confirmed = True
                callback(frame)
            self._confirm(consume_ok, _Frame(_Method(consumer_tag=consumer_tag)))
        else:
            self._confirm(callback, _Frame(_Method(consumer_tag=consumer_tag)))
        return consumer_tag

    # -- publish / ack ---------------------------------------------------------------------------
    def basic_publish(self, exchange, routing_key, body, properties=None, mandatory=False):
        self._check_open()
        b = self.broker
        if isinstance(body, str):
            body = body.encode("utf-8")
        if not isinstance(body, (bytes, bytearray)):
            raise TypeError("body must be bytes or str")
        props = (properties or BasicProperties()).copy()
        if exchange not in b.exchanges:
            self._broker_close(404, "NOT_FOUND - no exchange '%s' in vhost '/'" % exchange)
            return
        self.publish_seq += 1
        targets = b.route(exchange, routing_key, props.headers)
        arn = None
        try:
            arn = json.loads(body.decode("utf8"))["context"]["Execution"]["Id"]
        except Exception:
            pass
        for qn in targets:
            b.enqueue(qn, bytes(body), props, exchange, routing_key)
        returned = False
        if not targets and mandatory:
            returned = True
            method = Basic.Return(reply_code=312, reply_text="NO_ROUTE", exchange=exchange, routing_key=routing_key)
            self.pending_returns.append((method, props, bytes(body), b.step))
        b.log("publish", exchange=exchange, routing_key=routing_key, queues=targets, message_id=props.message_id,
              correlation_id=props.correlation_id, reply_to=props.reply_to, expiration=props.expiration,
              mandatory=bool(mandatory), returned=returned, connection=self.connection.name, arn=arn,
              body=bytes(body), headers=props.headers)

    def basic_ack(self, delivery_tag=0, multiple=False):
        self._check_open()
        b = self.broker
        if multiple:
            tags = [t for t in sorted(self.unacked) if delivery_tag == 0 or t <= delivery_tag]
            if delivery_tag != 0 and delivery_tag not in self.unacked and not tags:
                self._broker_close(406, "PRECONDITION_FAILED - unknown delivery tag %d" % delivery_tag)
                return
        else:
            if delivery_tag not in self.unacked:
                self._broker_close(406, "PRECONDITION_FAILED - unknown delivery tag %d" % delivery_tag)
                return
            tags = [delivery_tag]
        if multiple and len(tags) > 1:
            b.log("ack_multiple", tags=list(tags), delivery_tag=delivery_tag, connection=self.connection.name,
                  queues=sorted(set(self.unacked[t][0] for t in tags)))
        for t in tags:
            qname, m, consumer = self.unacked.pop(t)
            consumer.unacked -= 1
            b.log("ack", queue=qname, tag=t, message_id=m.props.message_id, correlation_id=m.props.correlation_id,
                  connection=self.connection.name, arn=m.meta()[0], multiple=bool(multiple))

    def basic_recover(self, requeue=False, callback=None):
        self._check_open()
        self.broker.requeue_unacked(self)
        if callback:
            callback(_Frame(_Method()))

    def confirm_delivery(self, ack_nack_callback=None, callback=None):
        self.confirm = ack_nack_callback
        if callback:
            callback(_Frame(_Method()))

# --------------------------------------------------------------------------------------------------
class URLParameters(object):
    def __init__(self, url):
        p = urllib.parse.urlparse(url)
        if p.scheme not in ("amqp", "amqps"):
            raise ValueError("Unexpected URL scheme %r" % p.scheme)
        self.host = p.hostname or "localhost"
        self.port = p.port or 5672
        q = dict(urllib.parse.parse_qsl(p.query))
        self.connection_attempts = int(q.get("connection_attempts", 1))
        self.retry_delay = float(q.get("retry_delay", 2.0))
        self.heartbeat = q.get("heartbeat")
        self.url = url

class _ConnBase(object):
    SEQ = 0
    def __init__(self, parameters):
        self.broker = Broker.CURRENT
        if self.broker is None:
            raise AMQPConnectionError("no simulated broker is running")
        _ConnBase.SEQ += 1
        self.name = "conn%d" % (len(self.broker.connections) + 1)
        self.parameters = parameters
        self.is_open = True
        self.is_closed = False
        self.channels = []
        self.timers = []
        self.pending_calls = []     # threadsafe callbacks waiting for the loop: (callable, enq_step)
        self._on_close = []
        self.defer_confirms = bool(getattr(self.broker, "defer_confirms_for_new_connections", False))
        self.broker.connections.append(self)

    def _new_channel(self):
        ch = Channel(self, len(self.channels) + 1)
        self.channels.append(ch)
        return ch

    def _call_later(self, delay, callback):
        b = self.broker
        b.timer_seq += 1
        t = Timer(b.clock.now + delay, delay, callback, b.timer_seq, self, b.step, None)
        if delay <= 0:
            t.due_step = b.step
        self.timers.append(t)
        b.log("set_timeout", timer=t.seq, delay=delay, kind=timer_kind(callback), connection=self.name)
        return t

    def _broker_close(self, code, text):
        self.broker.drop_connection(self)
        err = ConnectionClosedByBroker(code, text)
        for cb in list(self._on_close):
            cb(self, err)

    def add_on_close_callback(self, callback):
        self._on_close.append(callback)
