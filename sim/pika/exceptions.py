from ._core import (AMQPError, AMQPConnectionError, IncompatibleProtocolError, ConnectionClosedByBroker,
                    AMQPChannelError, ChannelClosed, ChannelClosedByBroker, ChannelWrongStateError, NackError,
                    UnroutableError)
