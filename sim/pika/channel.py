from ._core import Channel
