"""Simulated pika (see _core.py).  Only the surface asl_workflow_engine uses."""
from . import _core, exceptions, spec, channel, compat
from ._core import BasicProperties, URLParameters
from .adapters.blocking_connection import BlockingConnection
__version__ = "1.3.2-sim"
