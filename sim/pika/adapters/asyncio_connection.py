from .._core import _ConnBase

class AsyncioConnection(_ConnBase):
    def __init__(self, parameters=None, on_open_callback=None, on_open_error_callback=None,
                 on_close_callback=None, custom_ioloop=None, internal_connection_workflow=True):
        super().__init__(parameters)
        self._open_error = []
        if on_close_callback:
            self._on_close.append(on_close_callback)
        if on_open_callback:
            on_open_callback(self)

    def add_on_open_error_callback(self, callback):
        self._open_error.append(callback)

    def channel(self, channel_number=None, on_open_callback=None):
        ch = self._new_channel()
        if on_open_callback:
            on_open_callback(ch)
        return ch

    def close(self, reply_code=200, reply_text="Normal shutdown"):
        self.broker.drop_connection(self)

    def _adapter_call_later(self, delay, callback):
        return self._call_later(delay, callback)

    def _adapter_remove_timeout(self, timeout_id):
        timeout_id.cancel()

    def _adapter_add_callback_threadsafe(self, callback):
        self.pending_calls.append((callback, self.broker.step))
