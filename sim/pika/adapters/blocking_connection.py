from .._core import _ConnBase, Channel, AMQPConnectionError

class BlockingChannel(Channel):
    """pika.adapters.blocking_connection.BlockingChannel: same operations, results returned instead of callbacks."""
    @property
    def _impl(self):
        # the asynchronous channel a BlockingChannel wraps (the messaging module reaches into it for return callbacks)
        return _Impl(self)

    def exchange_declare(self, exchange, exchange_type="direct", passive=False, durable=False, auto_delete=False,
                         internal=False, arguments=None):
        box = []
        Channel.exchange_declare(self, exchange, exchange_type, passive, durable, auto_delete, internal, arguments,
                                 callback=box.append)
        if not box:
            raise self._last_error
        return box[0]

    def queue_declare(self, queue, passive=False, durable=False, exclusive=False, auto_delete=False, arguments=None):
        box = []
        Channel.queue_declare(self, queue, passive, durable, exclusive, auto_delete, arguments, callback=box.append)
        if not box:
            raise self._last_error
        return box[0]

    def queue_bind(self, queue, exchange, routing_key=None, arguments=None):
        box = []
        Channel.queue_bind(self, queue, exchange, routing_key, arguments, callback=box.append)
        if not box:
            raise self._last_error
        return box[0]

    def basic_consume(self, queue, on_message_callback, auto_ack=False, exclusive=False, consumer_tag=None, arguments=None):
        r = Channel.basic_consume(self, queue, on_message_callback, auto_ack, exclusive, consumer_tag, arguments)
        if r is None:
            raise self._last_error
        return r

    def _broker_close(self, code, text):
        self._last_error = Channel._broker_close(self, code, text)
        return self._last_error

    def start_consuming(self):
        self.connection._run()

    def stop_consuming(self):
        pass

class _Impl(object):
    def __init__(self, ch):
        self.ch = ch
    def add_on_return_callback(self, callback):
        self.ch._on_return.append(callback)
    def confirm_delivery(self, ack_nack_callback=None, callback=None):
        self.ch.confirm = ack_nack_callback

class BlockingConnection(_ConnBase):
    def __init__(self, parameters=None):
        super().__init__(parameters)
        self.driver = None   # set by the harness: callable(connection) that plays events and returns

    def channel(self, channel_number=None):
        ch = BlockingChannel(self, len(self.channels) + 1)
        self.channels.append(ch)
        return ch

    def call_later(self, delay, callback):
        return self._call_later(delay, callback)

    def remove_timeout(self, timeout_id):
        timeout_id.cancel()

    def add_callback_threadsafe(self, callback):
        self.pending_calls.append((callback, self.broker.step))

    def process_data_events(self, time_limit=0):
        self._run()

    def sleep(self, duration):
        pass

    def _run(self):
        from .._core import Broker
        hook = getattr(self.broker, "blocking_driver", None)
        if hook:
            hook(self)

    def close(self, reply_code=200, reply_text="Normal shutdown"):
        self.broker.drop_connection(self)
