from ._core import Basic, BasicProperties, Queue_ as Queue, Exchange_ as Exchange
