"""Simulated pottery containers over the simulated redis server: JSON-encoded members, write-through."""
import json
from collections.abc import MutableMapping, MutableSequence
import redis as _r

class RedisDict(MutableMapping):
    def __init__(self, iterable=None, *, redis=None, key=None, **kw):
        self.redis = redis
        self.key = key
        if iterable:
            cur = self.redis.server.data.get(key)
            h = dict(cur[1]) if cur and cur[0] == "hash" else {}
            for k, v in dict(iterable).items():
                h[json.dumps(k)] = json.dumps(v)
            self.redis.server.set_value(key, "hash", h)

    def _h(self):
        cur = self.redis.server.read(self.redis.id, self.key)
        return cur[1] if cur and cur[0] == "hash" else {}

    def __getitem__(self, k):
        h = self._h()
        jk = json.dumps(k)
        if jk not in h:
            raise KeyError(k)
        return json.loads(h[jk])

    def __setitem__(self, k, v):
        cur = self.redis.server.data.get(self.key)
        h = dict(cur[1]) if cur and cur[0] == "hash" else {}
        h[json.dumps(k)] = json.dumps(v)
        self.redis.server.set_value(self.key, "hash", h)

    def __delitem__(self, k):
        cur = self.redis.server.data.get(self.key)
        h = dict(cur[1]) if cur and cur[0] == "hash" else {}
        jk = json.dumps(k)
        if jk not in h:
            raise KeyError(k)
        del h[jk]
        self.redis.server.set_value(self.key, "hash", h)

    def __iter__(self):
        return iter([json.loads(k) for k in self._h()])

    def __len__(self):
        return len(self._h())

    def __repr__(self):
        return "RedisDict%r" % (dict(self),)

class RedisList(MutableSequence):
    def __init__(self, iterable=None, *, redis=None, key=None, **kw):
        self.redis = redis
        self.key = key
        if iterable:
            cur = self.redis.server.data.get(key)
            l = list(cur[1]) if cur and cur[0] == "list" else []
            l.extend(json.dumps(v) for v in iterable)
            self.redis.server.set_value(key, "list", l)

    def _l(self):
        cur = self.redis.server.read(self.redis.id, self.key)
        return cur[1] if cur and cur[0] == "list" else []

    def __getitem__(self, i):
        l = self._l()
        if isinstance(i, slice):
            return [json.loads(x) for x in l[i]]
        return json.loads(l[i])

    def __setitem__(self, i, v):
        l = list(self._l()); l[i] = json.dumps(v)
        self.redis.server.set_value(self.key, "list", l)

    def __delitem__(self, i):
        l = list(self._l()); del l[i]
        self.redis.server.set_value(self.key, "list", l)

    def __len__(self):
        return len(self._l())

    def insert(self, i, v):
        cur = self.redis.server.data.get(self.key)
        l = list(cur[1]) if cur and cur[0] == "list" else []
        l.insert(i, json.dumps(v))
        self.redis.server.set_value(self.key, "list", l)

    def __repr__(self):
        return "RedisList%r" % (list(self),)
